"""Helpers private to C01 (compiled router): reaching definitions on the CFG,
a small concrete evaluator over `ast` (used for the abstract evaluation of the
sort key, the conflict table and the pruning flag), and a model of the `_Cx*`
code-generation constructs read off their `__init__`/`src` methods.

Nothing here imports or executes the analysed code: the evaluator interprets
syntax trees over a finite set of *kind records* chosen by the rules.
"""

from __future__ import annotations

import ast
import re
import string
from typing import Dict, FrozenSet, List, Optional, Set, Tuple

from ..cfg import CFG
from ..model import AnchorError, Class, Func, Project, UnknownIdiom, short
from .common import walk_self

MODULE = 'falcon.routing.compiled'
ROUTER = MODULE + '.CompiledRouter'
NODE = MODULE + '.CompiledRouterNode'

ENTRY_DEF = -1  # pseudo definition: value at function entry (parameter / free variable)


# ---------------------------------------------------------------------------
# reaching definitions
# ---------------------------------------------------------------------------

def _target_names(t) -> List[str]:
    out = []
    if isinstance(t, ast.Name):
        out.append(t.id)
    elif isinstance(t, (ast.Tuple, ast.List)):
        for e in t.elts:
            out.extend(_target_names(e))
    elif isinstance(t, ast.Starred):
        out.extend(_target_names(t.value))
    return out


def node_defs(n) -> List[str]:
    """Local names (re)bound by CFG node n."""
    out: List[str] = []
    if n.kind == 'stmt':
        a = n.ast
        if isinstance(a, ast.Assign):
            for t in a.targets:
                out.extend(_target_names(t))
        elif isinstance(a, (ast.AugAssign, ast.AnnAssign)):
            if not (isinstance(a, ast.AnnAssign) and a.value is None):
                out.extend(_target_names(a.target))
        elif isinstance(a, (ast.FunctionDef, ast.AsyncFunctionDef, ast.ClassDef)):
            out.append(a.name)
        elif isinstance(a, (ast.Import, ast.ImportFrom)):
            for al in a.names:
                out.append((al.asname or al.name).split('.')[0])
        elif isinstance(a, ast.Delete):
            for t in a.targets:
                out.extend(_target_names(t))
    elif n.kind == 'iter':
        out.extend(_target_names(n.stmt.target))
    elif n.kind == 'with':
        for it in n.stmt.items:
            if it.optional_vars is not None:
                out.extend(_target_names(it.optional_vars))
    elif n.kind == 'handler':
        if n.ast.name:
            out.append(n.ast.name)
    # walrus inside any owned expression
    for e in n.walk():
        if isinstance(e, ast.NamedExpr) and isinstance(e.target, ast.Name):
            out.append(e.target.id)
    return out


class ReachingDefs:
    """IN[node][name] = set of CFG node ids whose binding of `name` may reach
    the entry of `node` (ENTRY_DEF = the value at function entry)."""

    def __init__(self, cfg: CFG):
        self.cfg = cfg
        self.defs: Dict[int, List[str]] = {n.id: node_defs(n) for n in cfg.live_nodes()}
        names: Set[str] = set()
        for d in self.defs.values():
            names.update(d)
        self.names = names
        IN: Dict[int, Dict[str, FrozenSet[int]]] = {}
        IN[cfg.entry] = {}
        work = [cfg.entry]
        while work:
            x = work.pop()
            cur = IN[x]
            out_normal = dict(cur)
            for nm in self.defs.get(x, ()):
                out_normal[nm] = frozenset([x])
            for (y, l) in cfg.succ[x]:
                # an exception leaves a statement before its binding happens;
                # the for-target is bound only on the 'next' edge
                if l == 'exc' or (cfg.node(x).kind == 'iter' and l == 'done'):
                    out = cur
                else:
                    out = out_normal
                old = IN.get(y)
                if old is None:
                    IN[y] = dict(out)
                    work.append(y)
                    continue
                changed = False
                keys = set(old) | set(out)
                for k in keys:
                    a = old.get(k, frozenset([ENTRY_DEF]))
                    b = out.get(k, frozenset([ENTRY_DEF]))
                    u = a | b
                    if u != a or k not in old:
                        old[k] = u
                        changed = True
                if changed:
                    work.append(y)
        self.IN = IN

    def at(self, nid: int, name: str) -> FrozenSet[int]:
        return self.IN.get(nid, {}).get(name, frozenset([ENTRY_DEF]))

    def def_value(self, def_id: int, name: str):
        """RHS expression of a simple `name = expr` definition, else None."""
        if def_id == ENTRY_DEF:
            return None
        n = self.cfg.node(def_id)
        a = n.ast
        if n.kind == 'stmt' and isinstance(a, ast.Assign) and len(a.targets) == 1 and isinstance(a.targets[0], ast.Name) \
                and a.targets[0].id == name:
            return a.value
        if n.kind == 'stmt' and isinstance(a, ast.AnnAssign) and isinstance(a.target, ast.Name) and a.target.id == name:
            return a.value
        return None


def node_of_ast(cfg: CFG, sub: ast.AST) -> int:
    """CFG node that evaluates expression/statement `sub` (primary copy)."""
    cache = getattr(cfg, '_c01_owner', None)
    if cache is None:
        cache = {}
        for n in cfg.live_nodes():
            if n.copy:
                continue
            for e in n.walk():
                cache.setdefault(id(e), n.id)
        cfg._c01_owner = cache
    try:
        return cache[id(sub)]
    except KeyError:
        raise UnknownIdiom('%s: expression %s is not evaluated by any live CFG node' % (cfg.func.qual, short(sub, 60)))


# ---------------------------------------------------------------------------
# concrete mini-evaluator
# ---------------------------------------------------------------------------

class _Unknown:
    def __repr__(self):
        return 'UNKNOWN'


UNK = _Unknown()


class Rec:
    """A record with a fixed set of attributes (a route-tree node kind)."""

    def __init__(self, label: str, **attrs):
        self.label = label
        self.attrs = attrs

    def __repr__(self):
        return self.label


class Closure:
    """A lambda, or a def whose body is a single `return <expr>`."""

    def __init__(self, node, env: Dict[str, object]):
        self.node = node
        self.env = env
        self.body = node.body if isinstance(node, ast.Lambda) else simple_def_body(node)


def simple_def_body(node):
    """The returned expression of `def f(a, b): [docstring]; return <expr>`, else None."""
    if not isinstance(node, ast.FunctionDef) or node.decorator_list:
        return None
    a = node.args
    if a.vararg or a.kwarg or a.kwonlyargs or a.defaults or a.posonlyargs:
        return None
    body = [s for s in node.body if not (isinstance(s, ast.Expr) and isinstance(s.value, ast.Constant))]
    if len(body) == 1 and isinstance(body[0], ast.Return) and body[0].value is not None:
        return body[0].value
    return None


class Evaluator:
    """Evaluates the expression subset {constants, names, attribute reads of
    records, + - *, comparisons, and/or/not, if-expressions, tuples/lists,
    comprehensions over concrete lists, len/bool/int/any/all/sum/sorted/
    reversed/list/tuple, lambdas} with Python's own semantics on concrete
    values.  Anything else evaluates to UNK (never guessed)."""

    def __init__(self, where: str, call_hook=None):
        self.where = where
        self.call_hook = call_hook  # (call, env) -> value | NotImplemented

    def ev(self, e, env):
        m = getattr(self, '_' + type(e).__name__, None)
        if m is None:
            return UNK
        return m(e, env)

    def _Constant(self, e, env):
        return e.value

    def _Name(self, e, env):
        return env.get(e.id, UNK)

    def _Attribute(self, e, env):
        v = self.ev(e.value, env)
        if isinstance(v, Rec):
            if e.attr in v.attrs:
                return v.attrs[e.attr]
            return UNK
        return UNK

    def _UnaryOp(self, e, env):
        v = self.ev(e.operand, env)
        if v is UNK:
            return UNK
        if isinstance(e.op, ast.Not):
            return not _truth(v)
        if isinstance(e.op, ast.USub) and isinstance(v, (int, bool)):
            return -v
        if isinstance(e.op, ast.UAdd) and isinstance(v, (int, bool)):
            return +v
        return UNK

    def _BoolOp(self, e, env):
        is_and = isinstance(e.op, ast.And)
        last = UNK
        for sub in e.values:
            v = self.ev(sub, env)
            if v is UNK:
                return UNK
            last = v
            if is_and and not _truth(v):
                return v
            if not is_and and _truth(v):
                return v
        return last

    def _BinOp(self, e, env):
        l, r = self.ev(e.left, env), self.ev(e.right, env)
        if l is UNK or r is UNK:
            return UNK
        num = lambda x: isinstance(x, (int, bool))  # noqa: E731
        try:
            if isinstance(e.op, ast.Add):
                if (num(l) and num(r)) or (isinstance(l, (list, tuple)) and type(l) is type(r)):
                    return l + r
            if isinstance(e.op, ast.Sub) and num(l) and num(r):
                return l - r
            if isinstance(e.op, ast.Mult) and num(l) and num(r):
                return l * r
        except Exception:
            return UNK
        return UNK

    def _Compare(self, e, env):
        left = self.ev(e.left, env)
        if left is UNK:
            return UNK
        for op, c in zip(e.ops, e.comparators):
            right = self.ev(c, env)
            if right is UNK:
                return UNK
            try:
                if isinstance(op, ast.Eq):
                    ok = left == right
                elif isinstance(op, ast.NotEq):
                    ok = left != right
                elif isinstance(op, ast.Lt):
                    ok = left < right
                elif isinstance(op, ast.LtE):
                    ok = left <= right
                elif isinstance(op, ast.Gt):
                    ok = left > right
                elif isinstance(op, ast.GtE):
                    ok = left >= right
                elif isinstance(op, ast.Is):
                    ok = left is right
                elif isinstance(op, ast.IsNot):
                    ok = left is not right
                elif isinstance(op, ast.In):
                    ok = left in right
                elif isinstance(op, ast.NotIn):
                    ok = left not in right
                else:
                    return UNK
            except Exception:
                return UNK
            if not ok:
                return False
            left = right
        return True

    def _IfExp(self, e, env):
        t = self.ev(e.test, env)
        if t is UNK:
            return UNK
        return self.ev(e.body if _truth(t) else e.orelse, env)

    def _Tuple(self, e, env):
        vs = [self.ev(x, env) for x in e.elts]
        return UNK if any(v is UNK for v in vs) else tuple(vs)

    def _List(self, e, env):
        vs = [self.ev(x, env) for x in e.elts]
        return UNK if any(v is UNK for v in vs) else list(vs)

    def _Lambda(self, e, env):
        a = e.args
        if a.vararg or a.kwarg or a.kwonlyargs or a.defaults or a.posonlyargs:
            return UNK
        return Closure(e, dict(env))

    def call_closure(self, c: Closure, args):
        params = [x.arg for x in c.node.args.args]
        if len(params) != len(args):
            return UNK
        env = dict(c.env)
        env.update(zip(params, args))
        if c.body is None:
            return UNK
        return self.ev(c.body, env)

    def _comp(self, e, env, elt):
        out = []

        def rec(i, env):
            if i == len(e.generators):
                v = self.ev(elt, env)
                out.append(v)
                return True
            g = e.generators[i]
            if g.is_async or not isinstance(g.target, ast.Name):
                return False
            it = self.ev(g.iter, env)
            if not isinstance(it, (list, tuple)):
                return False
            for x in it:
                env2 = dict(env)
                env2[g.target.id] = x
                keep = True
                for cond in g.ifs:
                    cv = self.ev(cond, env2)
                    if cv is UNK:
                        return False
                    if not _truth(cv):
                        keep = False
                        break
                if keep and not rec(i + 1, env2):
                    return False
            return True

        if not rec(0, env) or any(v is UNK for v in out):
            return UNK
        return out

    def _ListComp(self, e, env):
        return self._comp(e, env, e.elt)

    def _GeneratorExp(self, e, env):
        return self._comp(e, env, e.elt)

    def _Call(self, e, env):
        if self.call_hook is not None:
            r = self.call_hook(e, env)
            if r is not NotImplemented:
                return r
        if not isinstance(e.func, ast.Name) or e.func.id in env:
            if isinstance(e.func, ast.Name) and isinstance(env.get(e.func.id), Closure) and not e.keywords:
                args = [self.ev(a, env) for a in e.args]
                if any(a is UNK for a in args):
                    return UNK
                return self.call_closure(env[e.func.id], args)
            return UNK
        fn = e.func.id
        if any(isinstance(a, ast.Starred) for a in e.args):
            return UNK
        args = [self.ev(a, env) for a in e.args]
        if any(a is UNK for a in args):
            return UNK
        kw = {}
        for k in e.keywords:
            if k.arg is None:
                return UNK
            kw[k.arg] = self.ev(k.value, env)
            if kw[k.arg] is UNK:
                return UNK
        seq = lambda x: isinstance(x, (list, tuple))  # noqa: E731
        try:
            if fn == 'len' and len(args) == 1 and seq(args[0]) and not kw:
                return len(args[0])
            if fn == 'bool' and len(args) <= 1 and not kw:
                return _truth(args[0]) if args else False
            if fn == 'int' and len(args) == 1 and isinstance(args[0], (int, bool)) and not kw:
                return int(args[0])
            if fn in ('any', 'all') and len(args) == 1 and seq(args[0]) and not kw:
                vals = [_truth(x) for x in args[0]]
                return any(vals) if fn == 'any' else all(vals)
            if fn == 'sum' and len(args) == 1 and seq(args[0]) and not kw and all(isinstance(x, (int, bool)) for x in args[0]):
                return sum(args[0])
            if fn in ('list', 'tuple') and len(args) == 1 and seq(args[0]) and not kw:
                return list(args[0]) if fn == 'list' else tuple(args[0])
            if fn == 'reversed' and len(args) == 1 and seq(args[0]) and not kw:
                return list(reversed(args[0]))
            if fn == 'sorted' and len(args) == 1 and seq(args[0]) and set(kw) <= {'key', 'reverse'}:
                key = kw.get('key')
                rev = kw.get('reverse', False)
                if not isinstance(rev, bool):
                    return UNK
                if key is None or not isinstance(key, Closure):
                    return UNK
                keyed = []
                for x in args[0]:
                    k = self.call_closure(key, [x])
                    if k is UNK or not isinstance(k, (int, bool, tuple)):
                        return UNK
                    keyed.append((k, x))
                return [x for (k, x) in sorted(keyed, key=lambda kx: kx[0], reverse=rev)]
        except Exception:
            return UNK
        return UNK


def _truth(v) -> bool:
    if isinstance(v, Rec):
        return True
    return bool(v)


truth = _truth


# ---------------------------------------------------------------------------
# node kinds derived from CompiledRouterNode.__init__
# ---------------------------------------------------------------------------

def derive_node_kinds(project: Project, cfg: CFG) -> Set[Tuple[bool, bool]]:
    """All (is_var, is_complex) pairs with which the constructor can finish
    (path-insensitive walk of its CFG; the two flags must be assigned
    constants)."""
    init = ('unset', 'unset')
    seen = {(cfg.entry, init)}
    stack = [(cfg.entry, init)]
    out: Set[Tuple[object, object]] = set()
    while stack:
        nid, st = stack.pop()
        if nid == cfg.exit:
            out.add(st)
            continue
        n = cfg.node(nid)
        new = st
        if n.kind == 'stmt' and isinstance(n.ast, (ast.Assign, ast.AnnAssign, ast.AugAssign)):
            targets = n.ast.targets if isinstance(n.ast, ast.Assign) else [n.ast.target]
            for t in targets:
                for sub in ([t] if not isinstance(t, (ast.Tuple, ast.List)) else t.elts):
                    if isinstance(sub, ast.Attribute) and isinstance(sub.value, ast.Name) and sub.value.id == 'self' \
                            and sub.attr in ('is_var', 'is_complex'):
                        val = getattr(n.ast, 'value', None)
                        if isinstance(n.ast, ast.AugAssign) or not (isinstance(val, ast.Constant) and isinstance(val.value, bool)):
                            raise UnknownIdiom('%s: %s is not assigned a boolean constant (%s)' % (cfg.func.qual, sub.attr, short(n.ast, 80)))
                        new = (val.value, new[1]) if sub.attr == 'is_var' else (new[0], val.value)
        for (y, l) in cfg.succ[nid]:
            if l == 'exc':
                continue
            k = (y, new)
            if k not in seen:
                seen.add(k)
                stack.append(k)
    if any('unset' in st for st in out):
        raise UnknownIdiom('%s: is_var/is_complex not assigned on every path' % cfg.func.qual)
    return out  # type: ignore[return-value]


def kind_records(kinds) -> Dict[str, Rec]:
    """literal / multi / single records from the derived flag pairs."""
    want = {(False, False): 'literal', (True, True): 'multi', (True, False): 'single'}
    if set(kinds) != set(want):
        raise UnknownIdiom('CompiledRouterNode.__init__ produces node kinds %s; the rules know literal=(F,F), '
                           'multi-field=(T,T), single-field=(T,F)' % sorted(kinds))
    return {name: Rec(name, is_var=v, is_complex=c) for (v, c), name in want.items()}


# ---------------------------------------------------------------------------
# straight-line statement interpreter on top of the evaluator
# ---------------------------------------------------------------------------

class Interp:
    """Executes assignments / if / return / assert over an environment of
    concrete values and UNK.  A branch on UNK, or a loop/try that contains
    something the caller cares about, is an unknown idiom."""

    def __init__(self, ev: Evaluator, where: str, watch: Set[str] = frozenset()):
        self.ev = ev
        self.where = where
        self.watch = set(watch)  # names whose value the caller needs

    def _assigned(self, stmts) -> Set[str]:
        out: Set[str] = set()
        for s in stmts:
            for n in walk_self(s):
                if isinstance(n, ast.Name) and isinstance(n.ctx, (ast.Store, ast.Del)):
                    out.add(n.id)
        return out

    def _has_return(self, stmts) -> bool:
        return any(isinstance(n, ast.Return) for s in stmts for n in walk_self(s))

    def block(self, stmts, env) -> Tuple[str, object]:
        for s in stmts:
            r = self.stmt(s, env)
            if r[0] != 'fall':
                return r
        return ('fall', None)

    def stmt(self, s, env) -> Tuple[str, object]:
        if isinstance(s, ast.Return):
            return ('return', self.ev.ev(s.value, env) if s.value is not None else None)
        if isinstance(s, (ast.Pass, ast.Assert, ast.Expr, ast.Import, ast.ImportFrom, ast.Global, ast.Nonlocal)):
            return ('fall', None)
        if isinstance(s, ast.Assign):
            v = self.ev.ev(s.value, env)
            for t in s.targets:
                if isinstance(t, ast.Name):
                    env[t.id] = v
                elif isinstance(t, (ast.Tuple, ast.List)):
                    for nm in _target_names(t):
                        env[nm] = UNK
            return ('fall', None)
        if isinstance(s, ast.AnnAssign):
            if isinstance(s.target, ast.Name) and s.value is not None:
                env[s.target.id] = self.ev.ev(s.value, env)
            return ('fall', None)
        if isinstance(s, ast.AugAssign):
            if isinstance(s.target, ast.Name):
                fake = ast.BinOp(left=ast.Name(id=s.target.id, ctx=ast.Load()), op=s.op, right=s.value)
                env[s.target.id] = self.ev.ev(fake, env)
            return ('fall', None)
        if isinstance(s, ast.If):
            t = self.ev.ev(s.test, env)
            if t is UNK:
                touched = self._assigned(s.body) | self._assigned(s.orelse)
                if (touched & self.watch) or self._has_return(s.body) or self._has_return(s.orelse):
                    raise UnknownIdiom('%s: cannot evaluate the test `%s` that decides a watched value' % (self.where, short(s.test, 80)))
                for nm in touched:
                    env[nm] = UNK
                return ('fall', None)
            return self.block(s.body if _truth(t) else s.orelse, env)
        if isinstance(s, (ast.For, ast.While, ast.With, ast.Try, ast.AsyncFor, ast.AsyncWith)):
            touched = self._assigned([s])
            if (touched & self.watch) or self._has_return([s]):
                raise UnknownIdiom('%s: a watched value is assigned inside a %s statement' % (self.where, type(s).__name__))
            for nm in touched:
                env[nm] = UNK
            return ('fall', None)
        if isinstance(s, (ast.FunctionDef, ast.AsyncFunctionDef, ast.ClassDef)):
            env[s.name] = Closure(s, env) if simple_def_body(s) is not None else UNK
            return ('fall', None)
        if isinstance(s, ast.Raise):
            return ('raise', None)
        raise UnknownIdiom('%s: statement %s is not understood by the abstract evaluator' % (self.where, type(s).__name__))


# ---------------------------------------------------------------------------
# model of the _Cx* code-generation constructs
# ---------------------------------------------------------------------------

MARK_L, MARK_R = '⟦', '⟧'   # marks the value of a construct attribute inside rendered source
CHILDREN = MARK_L + ':children' + MARK_R
_MARK_RE = re.compile(MARK_L + r'(:?\w+)' + MARK_R)


def mark(attr: str) -> str:
    return MARK_L + attr + MARK_R


def _format(template: str, args: List[str], where: str, converted: Optional[Set[str]] = None) -> str:
    out = []
    auto = 0
    try:
        parsed = list(string.Formatter().parse(template))
    except ValueError as e:
        raise UnknownIdiom('%s: bad format template %r (%s)' % (where, template, e))
    for lit, field, spec, conv in parsed:
        out.append(lit)
        if field is None:
            continue
        # a conversion (!r / !s / !a) renders the same attribute value, quoted
        # or not; the model only tracks WHICH attribute lands in the source
        if spec:
            raise UnknownIdiom('%s: format spec in template %r' % (where, template))
        if field == '':
            idx = auto
            auto += 1
        elif field.isdigit():
            idx = int(field)
        else:
            raise UnknownIdiom('%s: named/complex placeholder {%s}' % (where, field))
        if idx >= len(args):
            raise UnknownIdiom('%s: placeholder {%d} has no argument in %r' % (where, idx, template))
        out.append(args[idx])
        if conv in ('r', 'a') and converted is not None:
            m = _MARK_RE.fullmatch(args[idx])
            if m:
                converted.add(m.group(1))   # rendered as a literal (repr), never as an expression
    return ''.join(out)


class CxClass:
    """What one construct class contributes to the generated finder."""

    def __init__(self, project: Project, cls: Class, base_parent: str, base_child: str):
        self.p = project
        self.cls = cls
        self.qual = cls.qual
        self.name = cls.name
        self.is_block = bool(project.is_subclass(cls.qual, base_parent))
        init = project.lookup_method(cls.qual, '__init__')
        self.params: List[str] = []
        # attr -> ('param', index) | ('name', template with {0}.., [param indexes]) | ('const', text) | ('other',)
        self.attr_src: Dict[str, tuple] = {}
        if init is not None and init.cls is not None and init.cls.qual == cls.qual:
            self._read_init(init)
        elif init is not None and init.cls is not None and init.cls.qual not in (base_parent, base_child):
            raise UnknownIdiom('%s inherits a constructor from %s' % (cls.qual, init.cls.qual))
        src = project.lookup_method(cls.qual, 'src')
        if src is None:
            raise UnknownIdiom('%s has no src()' % cls.qual)
        self.src_func = src
        self.literal_attrs: Set[str] = set()   # attributes rendered through !r / !a
        self.lines = self._render(src)

    # -- constructor: which attribute holds which parameter
    def _read_init(self, init: Func):
        a = init.node.args
        if a.vararg or a.kwarg or a.kwonlyargs:
            raise UnknownIdiom('%s: constructor signature' % init.qual)
        self.params = [x.arg for x in a.posonlyargs + a.args][1:]
        for s in init.node.body:
            if isinstance(s, ast.Expr):
                continue  # docstring / super().__init__()
            if isinstance(s, (ast.Assign, ast.AnnAssign)):
                targets = s.targets if isinstance(s, ast.Assign) else [s.target]
                if len(targets) == 1 and isinstance(targets[0], ast.Attribute) and isinstance(targets[0].value, ast.Name) \
                        and targets[0].value.id == 'self':
                    self.attr_src[targets[0].attr] = self._init_value(s.value, init)
                    continue
            raise UnknownIdiom('%s: constructor statement %s' % (init.qual, short(s, 60)))

    def _init_value(self, v, init):
        if isinstance(v, ast.Name) and v.id in self.params:
            return ('param', self.params.index(v.id))
        if isinstance(v, ast.Call) and isinstance(v.func, ast.Attribute) and v.func.attr == 'format' \
                and isinstance(v.func.value, ast.Constant) and isinstance(v.func.value.value, str) and not v.keywords \
                and all(isinstance(x, ast.Name) and x.id in self.params for x in v.args):
            return ('name', v.func.value.value, [self.params.index(x.id) for x in v.args])
        if isinstance(v, ast.JoinedStr):
            # f'dict_groups_{unique_idx}'  ==  'dict_groups_{0}'.format(unique_idx)
            tmpl, idxs = '', []
            for part in v.values:
                if isinstance(part, ast.Constant) and isinstance(part.value, str):
                    tmpl += part.value.replace('{', '{{').replace('}', '}}')
                elif isinstance(part, ast.FormattedValue) and part.format_spec is None and part.conversion == -1 \
                        and isinstance(part.value, ast.Name) and part.value.id in self.params:
                    tmpl += '{%d}' % len(idxs)
                    idxs.append(self.params.index(part.value.id))
                else:
                    raise UnknownIdiom('%s: attribute value %s' % (init.qual, short(v, 60)))
            return ('name', tmpl, idxs)
        if isinstance(v, ast.BinOp) and isinstance(v.op, ast.Mod) and isinstance(v.left, ast.Constant) and isinstance(v.left.value, str):
            # 'dict_groups_%d' % unique_idx
            args = v.right.elts if isinstance(v.right, ast.Tuple) else [v.right]
            parts = re.split(r'%[ds]', v.left.value)
            if len(parts) == len(args) + 1 and all('%' not in x for x in parts) \
                    and all(isinstance(x, ast.Name) and x.id in self.params for x in args):
                tmpl = parts[0].replace('{', '{{').replace('}', '}}')
                for i, x in enumerate(parts[1:]):
                    tmpl += '{%d}' % i + x.replace('{', '{{').replace('}', '}}')
                return ('name', tmpl, [self.params.index(x.id) for x in args])
            raise UnknownIdiom('%s: attribute value %s' % (init.qual, short(v, 60)))
        if isinstance(v, ast.Constant) and isinstance(v.value, str):
            return ('const', v.value)   # a fixed text (e.g. a generated variable name that is the same for every node)
        if isinstance(v, (ast.List, ast.Dict, ast.Constant)):
            return ('other',)
        raise UnknownIdiom('%s: attribute value %s' % (init.qual, short(v, 60)))

    # -- src(): rendered text with attribute marks
    def _render(self, src: Func) -> List[str]:
        env: Dict[str, object] = {}
        where = src.qual
        m = src.module

        def ev(e):
            if isinstance(e, ast.Constant) and isinstance(e.value, str):
                return e.value
            if isinstance(e, ast.Name):
                if e.id in env:
                    return env[e.id]
                v = self.p.fold(m, e, None, src)
                if isinstance(v, str):
                    return v
                raise UnknownIdiom('%s: name %s' % (where, e.id))
            if isinstance(e, ast.BinOp) and isinstance(e.op, ast.Mult):
                # indentation: <whitespace constant> * <int expr>
                for side in (e.left, e.right):
                    v = self.p.fold(m, side, None, src)
                    if isinstance(v, str) and v.strip() == '':
                        return ''
                raise UnknownIdiom('%s: %s' % (where, short(e, 60)))
            if isinstance(e, ast.Attribute) and isinstance(e.value, ast.Name) and e.value.id == 'self':
                return mark(e.attr)
            if isinstance(e, ast.Call) and isinstance(e.func, ast.Attribute):
                f = e.func
                if isinstance(f.value, ast.Name) and f.value.id == 'self' and f.attr == '_children_src':
                    return CHILDREN
                if f.attr == 'format' and not e.keywords:
                    t = ev(f.value)
                    if not isinstance(t, str):
                        raise UnknownIdiom('%s: format on %s' % (where, short(f.value, 40)))
                    args = [ev(a) for a in e.args]
                    if not all(isinstance(a, str) for a in args):
                        raise UnknownIdiom('%s: format arguments of %s' % (where, short(e, 60)))
                    return _format(t, args, where, self.literal_attrs)
                if f.attr == 'join' and len(e.args) == 1 and not e.keywords:
                    sep = ev(f.value)
                    seq = ev(e.args[0])
                    if isinstance(sep, str) and isinstance(seq, list) and all(isinstance(x, str) for x in seq):
                        return sep.join(seq)
                raise UnknownIdiom('%s: call %s' % (where, short(e, 60)))
            if isinstance(e, (ast.List, ast.Tuple)):
                return [ev(x) for x in e.elts]
            if isinstance(e, ast.BinOp) and isinstance(e.op, ast.Add):
                l, r = ev(e.left), ev(e.right)
                if isinstance(l, str) and isinstance(r, str):
                    return l + r
            raise UnknownIdiom('%s: expression %s' % (where, short(e, 60)))

        result = None
        for s in src.node.body:
            if isinstance(s, ast.Expr) and isinstance(s.value, ast.Constant):
                continue
            if isinstance(s, ast.Assign) and len(s.targets) == 1 and isinstance(s.targets[0], ast.Name):
                env[s.targets[0].id] = ev(s.value)
                continue
            if isinstance(s, ast.Return) and s.value is not None:
                result = ev(s.value)
                break
            if isinstance(s, ast.Raise):
                return []
            raise UnknownIdiom('%s: statement %s' % (where, short(s, 60)))
        if not isinstance(result, str):
            raise UnknownIdiom('%s: src() does not return rendered text' % where)
        return [ln.strip() for ln in result.split('\n')]

    # -- facts
    def code_lines(self) -> List[str]:
        """Rendered lines without comments and without the children block."""
        out = []
        for ln in self.lines:
            if ln == CHILDREN:
                continue
            ln = _strip_comment(ln)
            if ln:
                out.append(ln)
        return out

    def index_facts(self) -> List[Tuple[str, str, bool]]:
        """(generated table name, attribute used as index, is_slice)."""
        out = []
        for ln in self.code_lines():
            for m in re.finditer(r'([A-Za-z_]\w*)\[' + MARK_L + r'(\w+)' + MARK_R + r'(:?)\]', _blank_strings(ln)):
                out.append((m.group(1), m.group(2), bool(m.group(3))))
        return out

    def param_of_attr(self, attr: str) -> Optional[int]:
        s = self.attr_src.get(attr)
        return s[1] if s and s[0] == 'param' else None

    def fixed_text_of_attr(self, attr: str) -> Optional[str]:
        """The text an attribute renders as when it is the same for every
        instance of the construct (a string constant, or a name template
        without any placeholder); None when it depends on a constructor
        argument."""
        s = self.attr_src.get(attr)
        if s and s[0] == 'const':
            return s[1]
        if s and s[0] == 'name' and not s[2]:
            return _format(s[1], [], self.qual)
        return None

    def resolved_code_lines(self) -> List[str]:
        """code_lines() with the marks of instance-independent attributes
        replaced by their text (so that a variable name stored in such an
        attribute counts as the fixed name it is)."""
        def sub(m):
            t = self.fixed_text_of_attr(m.group(1))
            return m.group(0) if t is None else t
        return [_MARK_RE.sub(sub, ln) for ln in self.code_lines()]

    def assigned_attrs(self) -> Set[str]:
        """Attributes rendered as the target of a plain assignment
        (`<attr text> = ...`): generated variables this construct binds."""
        out = set()
        for ln in self.code_lines():
            m = re.match(MARK_L + r'(\w+)' + MARK_R + r'\s*=(?!=)', _blank_strings(ln))
            if m:
                out.add(m.group(1))
        return out

    def expression_attrs(self) -> Set[str]:
        """Attributes rendered in code position (outside string quotes) other
        than as a subscript index/slice bound or as an assignment target:
        their text is evaluated as an expression of the generated finder."""
        out = set()
        for ln in self.code_lines():
            b = _blank_strings(ln)
            tgt = re.match(MARK_L + r'(\w+)' + MARK_R + r'\s*=(?!=)', b)
            for m in _MARK_RE.finditer(b):
                if m.group(1).startswith(':') or m.group(1) in self.literal_attrs:
                    continue
                if tgt and m.start() == 0:
                    continue
                before, after = b[:m.start()], b[m.end():]
                if re.search(r'[\w\]\)]\[$', before) and re.match(r':?\]', after):
                    continue   # X[<attr>] / X[<attr>:]
                if re.search(r'\[:$', before) and after.startswith(']'):
                    continue   # X[:<attr>]
                out.add(m.group(1))
        return out


def _strip_comment(ln: str) -> str:
    out = []
    q = None
    for ch in ln:
        if q:
            out.append(ch)
            if ch == q:
                q = None
            continue
        if ch in '\'"':
            q = ch
        elif ch == '#':
            break
        out.append(ch)
    return ''.join(out).rstrip()


def _blank_strings(ln: str) -> str:
    """Replace the contents of quoted strings by nothing (keeps the quotes)."""
    out = []
    q = None
    for ch in ln:
        if q:
            if ch == q:
                q = None
                out.append(ch)
            continue
        if ch in '\'"':
            q = ch
        out.append(ch)
    return ''.join(out)


class CxModel:
    def __init__(self, project: Project):
        self.p = project
        m = project.module(MODULE)
        self.base_parent = MODULE + '._CxParent'
        self.base_child = MODULE + '._CxChild'
        project.cls(self.base_parent)
        project.cls(self.base_child)
        self.classes: Dict[str, CxClass] = {}
        for name, c in m.classes.items():
            if c.qual in (self.base_parent, self.base_child):
                continue
            if project.is_subclass(c.qual, self.base_parent) or project.is_subclass(c.qual, self.base_child):
                self.classes[c.qual] = CxClass(project, c, self.base_parent, self.base_child)
        if not self.classes:
            raise AnchorError('no _Cx construct classes found in %s' % MODULE)
        # header of the generated function
        comp = project.func(ROUTER + '._compile')
        headers = [n.value for n in walk_self(comp.node) if isinstance(n, ast.Constant) and isinstance(n.value, str)
                   and re.match(r'\s*def\s+\w+\s*\(', n.value)]
        if len(headers) != 1:
            raise AnchorError('%s: expected one `def ...(` header literal, found %d' % (comp.qual, len(headers)))
        self.header = headers[0]
        try:
            fn = ast.parse(self.header.strip() + '\n    pass\n').body[0]
        except SyntaxError as e:
            raise UnknownIdiom('%s: header literal %r does not parse (%s)' % (comp.qual, self.header, e))
        self.gen_name = fn.name
        self.gen_params = [a.arg for a in fn.args.args]
        if fn.args.vararg or fn.args.kwarg or fn.args.kwonlyargs or fn.args.defaults:
            raise UnknownIdiom('%s: generated signature %r' % (comp.qual, self.header))
        self.compile_func = comp

    def of(self, t) -> Optional[CxClass]:
        if isinstance(t, Class):
            return self.classes.get(t.qual)
        return None

    def writers_of(self, name: str) -> List[CxClass]:
        """Constructs whose code stores into the generated variable `name`
        (subscript store or mutating method)."""
        pat = re.compile(r'(?<![\w.])' + re.escape(name) + r'\s*(\[[^\]]*\]\s*=(?!=)|\.\s*(update|setdefault|pop|popitem|clear|__setitem__)\s*\()')
        return [c for c in self.classes.values() if any(pat.search(ln) for ln in c.code_lines())]
