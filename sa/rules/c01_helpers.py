"""Helpers private to C01 (compiled router): reaching definitions on the CFG,
a small concrete evaluator over `ast` (used for the abstract evaluation of the
sort key, the conflict table and the pruning flag), and a model of the `_Cx*`
code-generation constructs read off their `__init__`/`src` methods.

Nothing here imports or executes the analysed code: the evaluator interprets
syntax trees over a finite set of *kind records* chosen by the rules.
"""

from __future__ import annotations

import ast
import re
import string
from typing import Dict, FrozenSet, List, Optional, Set, Tuple

from ..cfg import CFG, cfg_of as _cfg_of
from ..model import AnchorError, Class, Func, Project, UnknownIdiom, short, walk_no_nested
from .common import walk_self

MODULE = 'falcon.routing.compiled'
ROUTER = MODULE + '.CompiledRouter'
NODE = MODULE + '.CompiledRouterNode'

ENTRY_DEF = -1  # pseudo definition: value at function entry (parameter / free variable)


# ---------------------------------------------------------------------------
# reaching definitions
# ---------------------------------------------------------------------------

def _target_names(t) -> List[str]:
    out = []
    if isinstance(t, ast.Name):
        out.append(t.id)
    elif isinstance(t, (ast.Tuple, ast.List)):
        for e in t.elts:
            out.extend(_target_names(e))
    elif isinstance(t, ast.Starred):
        out.extend(_target_names(t.value))
    return out


def node_defs(n) -> List[str]:
    """Local names (re)bound by CFG node n."""
    out: List[str] = []
    if n.kind == 'stmt':
        a = n.ast
        if isinstance(a, ast.Assign):
            for t in a.targets:
                out.extend(_target_names(t))
        elif isinstance(a, (ast.AugAssign, ast.AnnAssign)):
            if not (isinstance(a, ast.AnnAssign) and a.value is None):
                out.extend(_target_names(a.target))
        elif isinstance(a, (ast.FunctionDef, ast.AsyncFunctionDef, ast.ClassDef)):
            out.append(a.name)
        elif isinstance(a, (ast.Import, ast.ImportFrom)):
            for al in a.names:
                out.append((al.asname or al.name).split('.')[0])
        elif isinstance(a, ast.Delete):
            for t in a.targets:
                out.extend(_target_names(t))
    elif n.kind == 'iter':
        out.extend(_target_names(n.stmt.target))
    elif n.kind == 'with':
        for it in n.stmt.items:
            if it.optional_vars is not None:
                out.extend(_target_names(it.optional_vars))
    elif n.kind == 'handler':
        if n.ast.name:
            out.append(n.ast.name)
    # walrus inside any owned expression
    for e in n.walk():
        if isinstance(e, ast.NamedExpr) and isinstance(e.target, ast.Name):
            out.append(e.target.id)
    return out


class ReachingDefs:
    """IN[node][name] = set of CFG node ids whose binding of `name` may reach
    the entry of `node` (ENTRY_DEF = the value at function entry)."""

    def __init__(self, cfg: CFG):
        self.cfg = cfg
        self.defs: Dict[int, List[str]] = {n.id: node_defs(n) for n in cfg.live_nodes()}
        names: Set[str] = set()
        for d in self.defs.values():
            names.update(d)
        self.names = names
        IN: Dict[int, Dict[str, FrozenSet[int]]] = {}
        IN[cfg.entry] = {}
        work = [cfg.entry]
        while work:
            x = work.pop()
            cur = IN[x]
            out_normal = dict(cur)
            for nm in self.defs.get(x, ()):
                out_normal[nm] = frozenset([x])
            for (y, l) in cfg.succ[x]:
                # an exception leaves a statement before its binding happens;
                # the for-target is bound only on the 'next' edge
                if l == 'exc' or (cfg.node(x).kind == 'iter' and l == 'done'):
                    out = cur
                else:
                    out = out_normal
                old = IN.get(y)
                if old is None:
                    IN[y] = dict(out)
                    work.append(y)
                    continue
                changed = False
                keys = set(old) | set(out)
                for k in keys:
                    a = old.get(k, frozenset([ENTRY_DEF]))
                    b = out.get(k, frozenset([ENTRY_DEF]))
                    u = a | b
                    if u != a or k not in old:
                        old[k] = u
                        changed = True
                if changed:
                    work.append(y)
        self.IN = IN

    def at(self, nid: int, name: str) -> FrozenSet[int]:
        return self.IN.get(nid, {}).get(name, frozenset([ENTRY_DEF]))

    def def_value(self, def_id: int, name: str):
        """RHS expression of a simple `name = expr` definition, else None."""
        if def_id == ENTRY_DEF:
            return None
        n = self.cfg.node(def_id)
        a = n.ast
        if n.kind == 'stmt' and isinstance(a, ast.Assign) and len(a.targets) == 1 and isinstance(a.targets[0], ast.Name) \
                and a.targets[0].id == name:
            return a.value
        if n.kind == 'stmt' and isinstance(a, ast.AnnAssign) and isinstance(a.target, ast.Name) and a.target.id == name:
            return a.value
        return None


def node_of_ast(cfg: CFG, sub: ast.AST) -> int:
    """CFG node that evaluates expression/statement `sub` (primary copy)."""
    cache = getattr(cfg, '_c01_owner', None)
    if cache is None:
        cache = {}
        for n in cfg.live_nodes():
            if n.copy:
                continue
            for e in n.walk():
                cache.setdefault(id(e), n.id)
        cfg._c01_owner = cache
    try:
        return cache[id(sub)]
    except KeyError:
        raise UnknownIdiom('%s: expression %s is not evaluated by any live CFG node' % (cfg.func.qual, short(sub, 60)))


# ---------------------------------------------------------------------------
# concrete mini-evaluator
# ---------------------------------------------------------------------------

class _Unknown:
    def __repr__(self):
        return 'UNKNOWN'


UNK = _Unknown()


class Rec:
    """A record with a fixed set of attributes (a route-tree node kind)."""

    def __init__(self, label: str, **attrs):
        self.label = label
        self.attrs = attrs

    def __repr__(self):
        return self.label


class Closure:
    """A lambda, a def whose body is a single `return <expr>`, or any other
    plain-signature def (its statements are then run by `Interp`)."""

    def __init__(self, node, env: Dict[str, object], drop_first: bool = False):
        self.node = node
        self.env = env
        self.drop_first = drop_first   # bound method: the receiver is not an argument
        self.body = node.body if isinstance(node, ast.Lambda) else simple_def_body(node)
        self.stmts = None
        if self.body is None and isinstance(node, ast.FunctionDef) and plain_signature(node):
            self.stmts = [s for s in node.body if not (isinstance(s, ast.Expr) and isinstance(s.value, ast.Constant))]

    def params(self) -> List[str]:
        names = [x.arg for x in self.node.args.args]
        return names[1:] if self.drop_first else names


def plain_signature(node) -> bool:
    """`def f(a, b)`: positional parameters only, no defaults, no decorators."""
    if not isinstance(node, ast.FunctionDef) or node.decorator_list:
        return False
    a = node.args
    return not (a.vararg or a.kwarg or a.kwonlyargs or a.defaults or a.posonlyargs)


def simple_def_body(node):
    """The returned expression of `def f(a, b): [docstring]; return <expr>`, else None."""
    if not plain_signature(node):
        return None
    body = [s for s in node.body if not (isinstance(s, ast.Expr) and isinstance(s.value, ast.Constant))]
    if len(body) == 1 and isinstance(body[0], ast.Return) and body[0].value is not None:
        return body[0].value
    return None


class Evaluator:
    """Evaluates the expression subset {constants, names, attribute reads of
    records, + - *, comparisons, and/or/not, if-expressions, tuples/lists,
    comprehensions over concrete lists, len/bool/int/any/all/sum/min/max/
    sorted/reversed/list/tuple, lambdas, plain defs of the analysed tree} with Python's own semantics on concrete
    values.  Anything else evaluates to UNK (never guessed)."""

    def __init__(self, where: str, call_hook=None, resolver=None):
        self.where = where
        self.call_hook = call_hook  # (call, env) -> value | NotImplemented
        self.resolver = resolver    # (Name/Attribute not bound in env) -> Closure | None  (module-level defs, self.<method>)

    def ev(self, e, env):
        m = getattr(self, '_' + type(e).__name__, None)
        if m is None:
            return UNK
        return m(e, env)

    def _Constant(self, e, env):
        return e.value

    def _resolve(self, e):
        if self.resolver is None:
            return UNK
        r = self.resolver(e)
        return r if isinstance(r, Closure) else UNK

    def _Name(self, e, env):
        if e.id in env:
            return env[e.id]
        return self._resolve(e)

    def _Attribute(self, e, env):
        v = self.ev(e.value, env)
        if isinstance(v, Rec):
            if e.attr in v.attrs:
                return v.attrs[e.attr]
            return UNK
        if v is UNK:
            return self._resolve(e)
        return UNK

    def _UnaryOp(self, e, env):
        v = self.ev(e.operand, env)
        if v is UNK:
            return UNK
        if isinstance(e.op, ast.Not):
            return not _truth(v)
        if isinstance(e.op, ast.USub) and isinstance(v, (int, bool)):
            return -v
        if isinstance(e.op, ast.UAdd) and isinstance(v, (int, bool)):
            return +v
        return UNK

    def _BoolOp(self, e, env):
        is_and = isinstance(e.op, ast.And)
        last = UNK
        for sub in e.values:
            v = self.ev(sub, env)
            if v is UNK:
                return UNK
            last = v
            if is_and and not _truth(v):
                return v
            if not is_and and _truth(v):
                return v
        return last

    def _BinOp(self, e, env):
        l, r = self.ev(e.left, env), self.ev(e.right, env)
        if l is UNK or r is UNK:
            return UNK
        num = lambda x: isinstance(x, (int, bool))  # noqa: E731
        try:
            if isinstance(e.op, ast.Add):
                if (num(l) and num(r)) or (isinstance(l, (list, tuple)) and type(l) is type(r)):
                    return l + r
            if isinstance(e.op, ast.Sub) and num(l) and num(r):
                return l - r
            if isinstance(e.op, ast.Mult) and num(l) and num(r):
                return l * r
        except Exception:
            return UNK
        return UNK

    def _Compare(self, e, env):
        left = self.ev(e.left, env)
        if left is UNK:
            return UNK
        for op, c in zip(e.ops, e.comparators):
            right = self.ev(c, env)
            if right is UNK:
                return UNK
            if (left is NONNULL or right is NONNULL) and not (isinstance(op, (ast.Is, ast.IsNot, ast.Eq, ast.NotEq))
                                                              and (left is None or right is None)):
                return UNK   # "some object that is not None": only its None-ness is known, never its value
            try:
                if isinstance(op, ast.Eq):
                    ok = left == right
                elif isinstance(op, ast.NotEq):
                    ok = left != right
                elif isinstance(op, ast.Lt):
                    ok = left < right
                elif isinstance(op, ast.LtE):
                    ok = left <= right
                elif isinstance(op, ast.Gt):
                    ok = left > right
                elif isinstance(op, ast.GtE):
                    ok = left >= right
                elif isinstance(op, ast.Is):
                    ok = left is right
                elif isinstance(op, ast.IsNot):
                    ok = left is not right
                elif isinstance(op, ast.In):
                    ok = left in right
                elif isinstance(op, ast.NotIn):
                    ok = left not in right
                else:
                    return UNK
            except Exception:
                return UNK
            if not ok:
                return False
            left = right
        return True

    def _IfExp(self, e, env):
        t = self.ev(e.test, env)
        if t is UNK:
            return UNK
        return self.ev(e.body if _truth(t) else e.orelse, env)

    def _Tuple(self, e, env):
        vs = [self.ev(x, env) for x in e.elts]
        return UNK if any(v is UNK for v in vs) else tuple(vs)

    def _List(self, e, env):
        vs = [self.ev(x, env) for x in e.elts]
        return UNK if any(v is UNK for v in vs) else list(vs)

    def _Lambda(self, e, env):
        a = e.args
        if a.vararg or a.kwarg or a.kwonlyargs or a.defaults or a.posonlyargs:
            return UNK
        return Closure(e, dict(env))

    def call_closure(self, c: Closure, args):
        params = c.params()
        if len(params) != len(args):
            return UNK
        env = dict(c.env)
        env.update(zip(params, args))
        if c.body is not None:
            return self.ev(c.body, env)
        if c.stmts is None:
            return UNK
        try:
            kind, val = Interp(self, self.where).block(c.stmts, env)
        except UnknownIdiom:
            return UNK
        return val if kind == 'return' and val is not None else UNK

    def _comp(self, e, env, elt):
        out = []

        def rec(i, env):
            if i == len(e.generators):
                v = self.ev(elt, env)
                out.append(v)
                return True
            g = e.generators[i]
            if g.is_async or not isinstance(g.target, ast.Name):
                return False
            it = self.ev(g.iter, env)
            if not isinstance(it, (list, tuple)):
                return False
            for x in it:
                env2 = dict(env)
                env2[g.target.id] = x
                keep = True
                for cond in g.ifs:
                    cv = self.ev(cond, env2)
                    if cv is UNK:
                        return False
                    if not _truth(cv):
                        keep = False
                        break
                if keep and not rec(i + 1, env2):
                    return False
            return True

        if not rec(0, env) or any(v is UNK for v in out):
            return UNK
        return out

    def _ListComp(self, e, env):
        return self._comp(e, env, e.elt)

    def _GeneratorExp(self, e, env):
        return self._comp(e, env, e.elt)

    def _Call(self, e, env):
        if self.call_hook is not None:
            r = self.call_hook(e, env)
            if r is not NotImplemented:
                return r
        fv = None
        if isinstance(e.func, ast.Name) and e.func.id in env:
            fv = env[e.func.id]
        elif isinstance(e.func, (ast.Name, ast.Attribute)):
            fv = self._resolve(e.func)
        if isinstance(fv, Closure):
            if e.keywords or any(isinstance(a, ast.Starred) for a in e.args):
                return UNK
            args = [self.ev(a, env) for a in e.args]
            if any(a is UNK for a in args):
                return UNK
            return self.call_closure(fv, args)
        if not isinstance(e.func, ast.Name) or e.func.id in env:
            return UNK
        fn = e.func.id
        if any(isinstance(a, ast.Starred) for a in e.args):
            return UNK
        args = [self.ev(a, env) for a in e.args]
        if any(a is UNK for a in args):
            return UNK
        kw = {}
        for k in e.keywords:
            if k.arg is None:
                return UNK
            kw[k.arg] = self.ev(k.value, env)
            if kw[k.arg] is UNK:
                return UNK
        seq = lambda x: isinstance(x, (list, tuple))  # noqa: E731
        try:
            if fn == 'len' and len(args) == 1 and seq(args[0]) and not kw:
                return len(args[0])
            if fn == 'bool' and len(args) <= 1 and not kw:
                return _truth(args[0]) if args else False
            if fn == 'int' and len(args) == 1 and isinstance(args[0], (int, bool)) and not kw:
                return int(args[0])
            if fn in ('any', 'all') and len(args) == 1 and seq(args[0]) and not kw:
                vals = [_truth(x) for x in args[0]]
                return any(vals) if fn == 'any' else all(vals)
            if fn == 'sum' and len(args) == 1 and seq(args[0]) and not kw and all(isinstance(x, (int, bool)) for x in args[0]):
                return sum(args[0])
            if fn in ('min', 'max') and not kw and len(args) >= 2 and all(type(a) in (int, bool) for a in args):
                return min(args) if fn == 'min' else max(args)
            if fn in ('min', 'max') and not kw and len(args) == 1 and seq(args[0]) and args[0] and all(type(a) in (int, bool) for a in args[0]):
                return min(args[0]) if fn == 'min' else max(args[0])
            if fn in ('list', 'tuple') and len(args) == 1 and seq(args[0]) and not kw:
                return list(args[0]) if fn == 'list' else tuple(args[0])
            if fn == 'reversed' and len(args) == 1 and seq(args[0]) and not kw:
                return list(reversed(args[0]))
            if fn == 'sorted' and len(args) == 1 and seq(args[0]) and set(kw) <= {'key', 'reverse'}:
                key = kw.get('key')
                rev = kw.get('reverse', False)
                if not isinstance(rev, bool):
                    return UNK
                if key is None or not isinstance(key, Closure):
                    return UNK
                keyed = []
                for x in args[0]:
                    k = self.call_closure(key, [x])
                    if k is UNK or not isinstance(k, (int, bool, tuple)):
                        return UNK
                    keyed.append((k, x))
                return [x for (k, x) in sorted(keyed, key=lambda kx: kx[0], reverse=rev)]
        except Exception:
            return UNK
        return UNK


def _truth(v) -> bool:
    if isinstance(v, Rec):
        return True
    return bool(v)


truth = _truth


# ---------------------------------------------------------------------------
# node kinds derived from CompiledRouterNode.__init__
# ---------------------------------------------------------------------------

FIELD_COUNTS = (0, 1, 2, 3)   # number of field expressions in a segment; 3 stands for "three or more"

# (number of field expressions, is_var, is_complex) -> kind name
KIND_NAMES = {
    (0, False, False): 'literal',   # b
    (1, True, False): 'single',     # {x}           one field, whole segment
    (1, True, True): 'affix',       # {x}.json      one field with literal text around it ("complex", num_fields == 1)
    (2, True, True): 'multi',       # {x}-{y}       two fields
    (3, True, True): 'multi3',      # {x}-{y}-{z}   three or more
}
COMPLEX_KINDS = ('affix', 'multi', 'multi3')


def _matches_local(cfg: CFG) -> Set[str]:
    """The constructor's local holding the field expressions found in the
    segment: `<name> = list(<pattern>.finditer(...))` / `<pattern>.findall(...)`."""
    names = set()
    for n in cfg.live_nodes():
        a = n.ast
        if n.kind == 'stmt' and isinstance(a, (ast.Assign, ast.AnnAssign)) and a.value is not None:
            targets = a.targets if isinstance(a, ast.Assign) else [a.target]
            v = a.value
            if isinstance(v, ast.Call) and isinstance(v.func, ast.Name) and v.func.id in ('list', 'tuple') and len(v.args) == 1:
                v = v.args[0]
            if isinstance(v, ast.Call) and isinstance(v.func, ast.Attribute) and v.func.attr in ('finditer', 'findall'):
                for t in targets:
                    if isinstance(t, ast.Name):
                        names.add(t.id)
    if len(names) != 1:
        raise UnknownIdiom('%s: expected one local bound to the field expressions of the segment '
                           '(<pattern>.finditer/findall), found %s' % (cfg.func.qual, sorted(names)))
    # plain aliases (`matches = found`)
    binds: Dict[str, List[object]] = {}
    for n in cfg.live_nodes():
        for nm in node_defs(n):
            a = n.ast
            v = a.value if n.kind == 'stmt' and isinstance(a, (ast.Assign, ast.AnnAssign)) and len(node_defs(n)) == 1 else None
            binds.setdefault(nm, []).append(v)
    changed = True
    while changed:
        changed = False
        for nm, vals in binds.items():
            if nm not in names and vals and all(isinstance(v, ast.Name) and v.id in names for v in vals):
                names.add(nm)
                changed = True
    return names


NONNULL = Rec('<not None>')   # abstract value: some object that is not None (a str from a mandatory regex group, a compiled pattern)


def mandatory_groups(pattern_src: str) -> Set[str]:
    """Named groups of a (constant) regular expression that take part in every
    match: reached from the top level through capturing groups only (not inside
    an optional/zero-minimum repeat, a branch, a look-around or a conditional),
    so `<match>.group(<name>)` is a str, never None.  The pattern text is data
    read from the analysed tree; only the stdlib parser runs."""
    try:
        from re import _parser as sre_parse, _constants as sre_c   # Python >= 3.11
    except ImportError:   # pragma: no cover
        import sre_parse
        import sre_constants as sre_c
    try:
        tree = sre_parse.parse(pattern_src)
        index = dict(re.compile(pattern_src).groupindex)
    except Exception:
        return set()
    by_num = {v: k for k, v in index.items()}
    out: Set[str] = set()

    def walk(seq):
        for op, av in seq:
            if op is sre_c.SUBPATTERN:
                group, _add, _del, sub = av
                if group in by_num:
                    out.add(by_num[group])
                walk(sub)
            elif op in (sre_c.MAX_REPEAT, sre_c.MIN_REPEAT) or getattr(sre_c, 'POSSESSIVE_REPEAT', None) is op:
                lo, _hi, sub = av
                if lo >= 1:
                    walk(sub)
            elif getattr(sre_c, 'ATOMIC_GROUP', None) is op:
                walk(av)
    walk(tree)
    return out


def _match_object_locals(cfg: CFG, mnames: Set[str]) -> Set[str]:
    """Locals that only ever hold one element of the list of field-expression
    matches: `for <name> in <matches>` targets and `<name> = <matches>[<i>]`."""
    binds: Dict[str, List[bool]] = {}
    for n in cfg.live_nodes():
        defs = node_defs(n)
        if not defs:
            continue
        a = n.ast
        ok = False
        if n.kind == 'iter' and isinstance(n.stmt, ast.For) and isinstance(n.stmt.target, ast.Name) \
                and isinstance(n.stmt.iter, ast.Name) and n.stmt.iter.id in mnames:
            ok = True
        elif n.kind == 'stmt' and isinstance(a, (ast.Assign, ast.AnnAssign)) and len(defs) == 1 and a.value is not None \
                and isinstance(a.value, ast.Subscript) and isinstance(a.value.value, ast.Name) and a.value.value.id in mnames \
                and not isinstance(a.value.slice, ast.Slice):
            ok = True
        for nm in defs:
            binds.setdefault(nm, []).append(ok)
    return {nm for nm, oks in binds.items() if oks and all(oks)}


def _field_pattern_source(project: Project, cfg: CFG) -> Optional[str]:
    """Source text of the compiled-regex module constant whose finditer/findall
    result the constructor walks (None if it is not a foldable constant)."""
    mod = cfg.func.module
    srcs = set()
    for n in cfg.live_nodes():
        for c in n.calls():
            if isinstance(c.func, ast.Attribute) and c.func.attr in ('finditer', 'findall') and isinstance(c.func.value, ast.Name):
                v = mod.consts.get(c.func.value.id)
                if isinstance(v, ast.Call) and len(v.args) >= 1 and project.resolve_expr(mod, v.func) == 're.compile':
                    s = project.fold(mod, v.args[0], None, None)
                    if isinstance(s, str):
                        srcs.add(s)
                        continue
                srcs.add(None)
    return next(iter(srcs)) if len(srcs) == 1 else None


def derive_node_kinds(project: Project, cfg: CFG) -> Set[Tuple[int, object, object, object, tuple]]:
    """All (n, is_var, is_complex, num_fields, extras) with which the
    constructor can finish for a segment holding n field expressions, n in
    FIELD_COUNTS.

    The constructor's CFG is walked once per n with the list of matches bound
    to n placeholder objects: tests and asserts that the mini-evaluator can
    decide on that binding (`not matches`, `len(matches) == 1`,
    `self.is_complex`) select / prune paths, every other test keeps both
    branches.  The three attributes must be assigned boolean constants /
    evaluable integers.

    `extras` is a sorted tuple of (attribute, None | NONNULL) for every other
    attribute that ends up, on that path, plainly assigned the constant None
    or a value that cannot be None: `<match>.group(<g>)` of a group that takes
    part in every match of the field pattern, or `re.compile(...)`.  Any other
    value (parameters, lists that are appended to, ...) is left out: a read of
    it evaluates to UNK."""
    mnames = _matches_local(cfg)
    mobjs = _match_object_locals(cfg, mnames)
    src = _field_pattern_source(project, cfg)
    mandatory = mandatory_groups(src) if src is not None else set()
    mod = cfg.func.module
    ev = Evaluator(cfg.func.qual)
    out: Set[Tuple[int, object, object, object, tuple]] = set()
    FLAGS = ('is_var', 'is_complex', 'num_fields')

    def other_value(v):
        """None | NONNULL | UNK for the value expression of `self.<other attr> = v`."""
        if isinstance(v, ast.Constant) and v.value is None:
            return None
        if isinstance(v, ast.Call) and isinstance(v.func, ast.Attribute) and v.func.attr == 'group' and len(v.args) == 1 \
                and not v.keywords and isinstance(v.args[0], ast.Constant) and v.args[0].value in mandatory:
            r = v.func.value
            if isinstance(r, ast.Name) and r.id in mobjs:
                return NONNULL
            if isinstance(r, ast.Subscript) and isinstance(r.value, ast.Name) and r.value.id in mnames and not isinstance(r.slice, ast.Slice):
                return NONNULL
            return UNK
        if isinstance(v, ast.Call) and project.resolve_expr(mod, v.func) == 're.compile':
            return NONNULL
        return UNK

    for n_fields in FIELD_COUNTS:
        init = ('unset', 'unset', 'unset', ())
        seen = {(cfg.entry, init)}
        stack = [(cfg.entry, init)]
        while stack:
            nid, st = stack.pop()
            if nid == cfg.exit:
                out.add((n_fields,) + st)
                continue
            n = cfg.node(nid)
            fields = [Rec('field#%d' % i) for i in range(n_fields)]
            env = {'self': Rec('self', **{k: v for k, v in zip(FLAGS, st) if v != 'unset'})}
            env.update({m: fields for m in mnames})
            new = st
            only = None    # restrict the successors to this edge label
            if n.kind == 'stmt' and isinstance(n.ast, (ast.Assign, ast.AnnAssign, ast.AugAssign)):
                targets = n.ast.targets if isinstance(n.ast, ast.Assign) else [n.ast.target]
                for t in targets:
                    for sub in ([t] if not isinstance(t, (ast.Tuple, ast.List)) else t.elts):
                        if not (isinstance(sub, ast.Attribute) and isinstance(sub.value, ast.Name) and sub.value.id == 'self'):
                            continue
                        val = getattr(n.ast, 'value', None)
                        if sub.attr in FLAGS:
                            if isinstance(n.ast, ast.AugAssign) or sub is not t or val is None:
                                raise UnknownIdiom('%s: %s is not plainly assigned (%s)' % (cfg.func.qual, sub.attr, short(n.ast, 80)))
                            v = ev.ev(val, env)
                            if sub.attr == 'num_fields':
                                if type(v) is not int:
                                    raise UnknownIdiom('%s: num_fields is not assigned an evaluable integer (%s)' % (
                                        cfg.func.qual, short(n.ast, 80)))
                            elif type(v) is not bool:
                                raise UnknownIdiom('%s: %s is not assigned an evaluable boolean (%s)' % (cfg.func.qual, sub.attr, short(n.ast, 80)))
                            i = FLAGS.index(sub.attr)
                            new = new[:i] + (v,) + new[i + 1:]
                        else:
                            if isinstance(n.ast, ast.AnnAssign) and val is None:
                                continue   # bare annotation
                            v = UNK if (isinstance(n.ast, ast.AugAssign) or sub is not t) else other_value(val)
                            extras = dict(new[3])
                            extras[sub.attr] = v
                            new = new[:3] + (tuple(sorted(extras.items(), key=lambda kv: kv[0])),)
            elif n.kind == 'stmt' and isinstance(n.ast, ast.Assert):
                v = ev.ev(n.ast.test, env)
                if v is not UNK and not _truth(v):
                    continue   # the constructor fails here for this n: no node of this shape exists
            elif n.kind == 'test':
                v = ev.ev(n.ast, env)
                if v is not UNK:
                    only = 'T' if _truth(v) else 'F'
            for (y, l) in cfg.succ[nid]:
                if l == 'exc' or (only is not None and l in ('T', 'F') and l != only):
                    continue
                k = (y, new)
                if k not in seen:
                    seen.add(k)
                    stack.append(k)
    if any('unset' in st[1:3] for st in out):
        raise UnknownIdiom('%s: is_var/is_complex not assigned on every path' % cfg.func.qual)
    return out


def kind_records(kinds) -> Dict[str, Rec]:
    """literal / single / affix / multi / multi3 records from the derived tuples.
    Besides is_var / is_complex / num_fields a record carries every other
    attribute whose None-ness is the same on all constructor paths of that kind
    (`var_name`: None except on a single-field node)."""
    shapes = {(n, v, c) for (n, v, c, _nf, _x) in kinds}
    if shapes != set(KIND_NAMES):
        raise UnknownIdiom('CompiledRouterNode.__init__ produces node kinds (fields, is_var, is_complex) %s; the rules know %s'
                           % (sorted(shapes), sorted(KIND_NAMES)))
    out = {}
    extras: Dict[str, List[dict]] = {}
    for (n, v, c, nf, x) in sorted(kinds, key=str):
        name = KIND_NAMES[(n, v, c)]
        extras.setdefault(name, []).append(dict(x))
        if name in out:
            if out[name].attrs.get('num_fields', 'unset') != nf:
                raise UnknownIdiom('CompiledRouterNode.__init__: num_fields of a %s node is not unique' % name)
            continue
        attrs = {'is_var': v, 'is_complex': c}
        if nf != 'unset':
            attrs['num_fields'] = nf
        out[name] = Rec(name, **attrs)
    for name, variants in extras.items():
        for attr in set().union(*variants):
            vals = [d.get(attr, UNK) for d in variants]
            if all(x is None for x in vals):
                out[name].attrs[attr] = None
            elif all(x is NONNULL for x in vals):
                out[name].attrs[attr] = NONNULL
    return out


# ---------------------------------------------------------------------------
# straight-line statement interpreter on top of the evaluator
# ---------------------------------------------------------------------------

class Interp:
    """Executes assignments / if / return / assert over an environment of
    concrete values and UNK.  A branch on UNK, or a loop/try that contains
    something the caller cares about, is an unknown idiom."""

    def __init__(self, ev: Evaluator, where: str, watch: Set[str] = frozenset()):
        self.ev = ev
        self.where = where
        self.watch = set(watch)  # names whose value the caller needs

    def _assigned(self, stmts) -> Set[str]:
        out: Set[str] = set()
        for s in stmts:
            for n in walk_self(s):
                if isinstance(n, ast.Name) and isinstance(n.ctx, (ast.Store, ast.Del)):
                    out.add(n.id)
        return out

    def _has_return(self, stmts) -> bool:
        return any(isinstance(n, ast.Return) for s in stmts for n in walk_self(s))

    def block(self, stmts, env) -> Tuple[str, object]:
        for s in stmts:
            r = self.stmt(s, env)
            if r[0] != 'fall':
                return r
        return ('fall', None)

    def stmt(self, s, env) -> Tuple[str, object]:
        if isinstance(s, ast.Return):
            return ('return', self.ev.ev(s.value, env) if s.value is not None else None)
        if isinstance(s, (ast.Pass, ast.Assert, ast.Expr, ast.Import, ast.ImportFrom, ast.Global, ast.Nonlocal)):
            return ('fall', None)
        if isinstance(s, ast.Assign):
            v = self.ev.ev(s.value, env)
            for t in s.targets:
                if isinstance(t, ast.Name):
                    env[t.id] = v
                elif isinstance(t, (ast.Tuple, ast.List)):
                    for nm in _target_names(t):
                        env[nm] = UNK
            return ('fall', None)
        if isinstance(s, ast.AnnAssign):
            if isinstance(s.target, ast.Name) and s.value is not None:
                env[s.target.id] = self.ev.ev(s.value, env)
            return ('fall', None)
        if isinstance(s, ast.AugAssign):
            if isinstance(s.target, ast.Name):
                fake = ast.BinOp(left=ast.Name(id=s.target.id, ctx=ast.Load()), op=s.op, right=s.value)
                env[s.target.id] = self.ev.ev(fake, env)
            return ('fall', None)
        if isinstance(s, ast.If):
            t = self.ev.ev(s.test, env)
            if t is UNK:
                touched = self._assigned(s.body) | self._assigned(s.orelse)
                if (touched & self.watch) or self._has_return(s.body) or self._has_return(s.orelse):
                    raise UnknownIdiom('%s: cannot evaluate the test `%s` that decides a watched value' % (self.where, short(s.test, 80)))
                for nm in touched:
                    env[nm] = UNK
                return ('fall', None)
            return self.block(s.body if _truth(t) else s.orelse, env)
        if isinstance(s, ast.Break):
            return ('break', None)
        if isinstance(s, ast.Continue):
            return ('continue', None)
        if isinstance(s, ast.For) and isinstance(s.target, ast.Name) and ((self._assigned([s]) & self.watch) or self._has_return([s])):
            # a loop over a CONCRETE finite sequence that decides a watched value (`for n in nodes: if n.is_var: flag = False; break`)
            # is unrolled exactly: one pass per element, break / continue / else as in Python
            seq = self.ev.ev(s.iter, env)
            if isinstance(seq, (list, tuple)) and len(seq) <= 32 and not any(x is UNK for x in seq):
                broke = False
                for item in seq:
                    env[s.target.id] = item
                    r = self.block(s.body, env)
                    if r[0] == 'break':
                        broke = True
                        break
                    if r[0] in ('return', 'raise'):
                        return r
                if not broke and s.orelse:
                    return self.block(s.orelse, env)
                return ('fall', None)
        if isinstance(s, (ast.For, ast.While, ast.With, ast.Try, ast.AsyncFor, ast.AsyncWith)):
            touched = self._assigned([s])
            if (touched & self.watch) or self._has_return([s]):
                raise UnknownIdiom('%s: a watched value is assigned inside a %s statement' % (self.where, type(s).__name__))
            for nm in touched:
                env[nm] = UNK
            return ('fall', None)
        if isinstance(s, (ast.FunctionDef, ast.AsyncFunctionDef, ast.ClassDef)):
            env[s.name] = Closure(s, env) if plain_signature(s) else UNK
            return ('fall', None)
        if isinstance(s, ast.Raise):
            return ('raise', None)
        raise UnknownIdiom('%s: statement %s is not understood by the abstract evaluator' % (self.where, type(s).__name__))


# ---------------------------------------------------------------------------
# model of the _Cx* code-generation constructs
# ---------------------------------------------------------------------------

MARK_L, MARK_R = '⟦', '⟧'   # marks the value of a construct attribute inside rendered source
CHILDREN = MARK_L + ':children' + MARK_R
_MARK_RE = re.compile(MARK_L + r'(:?\w+)' + MARK_R)


def mark(attr: str) -> str:
    return MARK_L + attr + MARK_R


def _format(template: str, args: List[str], where: str, converted: Optional[Set[str]] = None) -> str:
    out = []
    auto = 0
    try:
        parsed = list(string.Formatter().parse(template))
    except ValueError as e:
        raise UnknownIdiom('%s: bad format template %r (%s)' % (where, template, e))
    for lit, field, spec, conv in parsed:
        out.append(lit)
        if field is None:
            continue
        # a conversion (!r / !s / !a) renders the same attribute value, quoted
        # or not; the model only tracks WHICH attribute lands in the source
        if spec:
            raise UnknownIdiom('%s: format spec in template %r' % (where, template))
        if field == '':
            idx = auto
            auto += 1
        elif field.isdigit():
            idx = int(field)
        else:
            raise UnknownIdiom('%s: named/complex placeholder {%s}' % (where, field))
        if idx >= len(args):
            raise UnknownIdiom('%s: placeholder {%d} has no argument in %r' % (where, idx, template))
        out.append(args[idx])
        if conv in ('r', 'a') and converted is not None:
            m = _MARK_RE.fullmatch(args[idx])
            if m:
                converted.add(m.group(1))   # rendered as a literal (repr), never as an expression
    return ''.join(out)


def fstring_as_format(e: ast.JoinedStr, where: str) -> ast.Call:
    """The `'<template>'.format(<values>)` call that renders the same text as
    the f-string `e`: literal parts verbatim (braces doubled), the k-th
    replacement field as `{k}` / `{k!r}` / `{k!s}` / `{k!a}` fed by the field's
    own expression.  `format(v, '')` is what both spellings apply, so every
    reader of str.format templates (construct model, R9's placement tracing)
    sees an f-string exactly like the equivalent .format call.  A format spec is
    not read (UnknownIdiom), as in a .format template."""
    tmpl, args = '', []
    for part in e.values:
        if isinstance(part, ast.Constant) and isinstance(part.value, str):
            tmpl += part.value.replace('{', '{{').replace('}', '}}')
        elif isinstance(part, ast.FormattedValue):
            if part.format_spec is not None:
                raise UnknownIdiom('%s: format spec in %s' % (where, short(e, 60)))
            conv = {-1: '', 114: '!r', 115: '!s', 97: '!a'}.get(part.conversion)
            if conv is None:
                raise UnknownIdiom('%s: conversion in %s' % (where, short(e, 60)))
            tmpl += '{%d%s}' % (len(args), conv)
            args.append(part.value)
        else:
            raise UnknownIdiom('%s: f-string part in %s' % (where, short(e, 60)))
    call = ast.Call(func=ast.Attribute(value=ast.Constant(tmpl), attr='format', ctx=ast.Load()), args=args, keywords=[])
    ast.copy_location(call, e)
    ast.copy_location(call.func, e)
    ast.copy_location(call.func.value, e)
    return call


def percent_as_format(e: ast.BinOp, where: str) -> ast.Call:
    """The `'<template>'.format(<values>)` call that renders the same text as `'<template>' % <values>`: `%s` / `%d` /
    `%i` become `{k}`, `%r` / `%a` become `{k!r}` / `{k!a}`, `%%` a percent sign, literal braces are doubled.  (`%d` of
    an int and `{}` of it are the same digits; where `%d` would raise for a non-int nothing is rendered at all.)
    Flags, widths, precisions and mapping keys are not read (UnknownIdiom)."""
    t = e.left.value
    vals = list(e.right.elts) if isinstance(e.right, ast.Tuple) else [e.right]
    tmpl, k, i = '', 0, 0
    while i < len(t):
        ch = t[i]
        if ch != '%':
            tmpl += {'{': '{{', '}': '}}'}.get(ch, ch)
            i += 1
            continue
        c = t[i + 1] if i + 1 < len(t) else ''
        if c == '%':
            tmpl += '%'
        elif c in 'sdi':
            tmpl += '{%d}' % k
            k += 1
        elif c in 'ra':
            tmpl += '{%d!%s}' % (k, c)
            k += 1
        else:
            raise UnknownIdiom('%s: %%-conversion in %s' % (where, short(e, 60)))
        i += 2
    if k != len(vals) or any(isinstance(v, ast.Starred) for v in vals):
        raise UnknownIdiom('%s: %%-format arguments of %s' % (where, short(e, 60)))
    call = ast.Call(func=ast.Attribute(value=ast.Constant(tmpl), attr='format', ctx=ast.Load()), args=vals, keywords=[])
    ast.copy_location(call, e)
    ast.copy_location(call.func, e)
    ast.copy_location(call.func.value, e)
    return call


class CxClass:
    """What one construct class contributes to the generated finder."""

    def __init__(self, project: Project, cls: Class, base_parent: str, base_child: str):
        self.p = project
        self.cls = cls
        self.qual = cls.qual
        self.name = cls.name
        self.is_block = bool(project.is_subclass(cls.qual, base_parent))
        init = project.lookup_method(cls.qual, '__init__')
        self.params: List[str] = []
        # attr -> ('param', index) | ('name', template with {0}.., [param indexes]) | ('const', text) | ('other',)
        self.attr_src: Dict[str, tuple] = {}
        if init is not None and init.cls is not None and init.cls.qual == cls.qual:
            self._read_init(init)
        elif init is not None and init.cls is not None and init.cls.qual not in (base_parent, base_child):
            raise UnknownIdiom('%s inherits a constructor from %s' % (cls.qual, init.cls.qual))
        src = project.lookup_method(cls.qual, 'src')
        if src is None:
            raise UnknownIdiom('%s has no src()' % cls.qual)
        self.src_func = src
        self.literal_attrs: Set[str] = set()   # attributes rendered through !r / !a
        self.lines = self._render(src)

    # -- constructor: which attribute holds which parameter
    def _read_init(self, init: Func):
        a = init.node.args
        if a.vararg or a.kwarg or a.kwonlyargs:
            raise UnknownIdiom('%s: constructor signature' % init.qual)
        self.params = [x.arg for x in a.posonlyargs + a.args][1:]
        for s in init.node.body:
            if isinstance(s, ast.Expr):
                continue  # docstring / super().__init__()
            if isinstance(s, (ast.Assign, ast.AnnAssign)):
                targets = s.targets if isinstance(s, ast.Assign) else [s.target]
                if len(targets) == 1 and isinstance(targets[0], ast.Attribute) and isinstance(targets[0].value, ast.Name) \
                        and targets[0].value.id == 'self':
                    self.attr_src[targets[0].attr] = self._init_value(s.value, init)
                    continue
            raise UnknownIdiom('%s: constructor statement %s' % (init.qual, short(s, 60)))

    def _init_value(self, v, init):
        if isinstance(v, ast.Name) and v.id in self.params:
            return ('param', self.params.index(v.id))
        if isinstance(v, ast.Call) and isinstance(v.func, ast.Attribute) and v.func.attr == 'format' \
                and isinstance(v.func.value, ast.Constant) and isinstance(v.func.value.value, str) and not v.keywords \
                and all(isinstance(x, ast.Name) and x.id in self.params for x in v.args):
            return ('name', v.func.value.value, [self.params.index(x.id) for x in v.args])
        if isinstance(v, ast.JoinedStr):
            # f'dict_groups_{unique_idx}'  ==  'dict_groups_{0}'.format(unique_idx)
            tmpl, idxs = '', []
            for part in v.values:
                if isinstance(part, ast.Constant) and isinstance(part.value, str):
                    tmpl += part.value.replace('{', '{{').replace('}', '}}')
                elif isinstance(part, ast.FormattedValue) and part.format_spec is None and part.conversion == -1 \
                        and isinstance(part.value, ast.Name) and part.value.id in self.params:
                    tmpl += '{%d}' % len(idxs)
                    idxs.append(self.params.index(part.value.id))
                else:
                    raise UnknownIdiom('%s: attribute value %s' % (init.qual, short(v, 60)))
            return ('name', tmpl, idxs)
        if isinstance(v, ast.BinOp) and isinstance(v.op, ast.Mod) and isinstance(v.left, ast.Constant) and isinstance(v.left.value, str):
            # 'dict_groups_%d' % unique_idx
            args = v.right.elts if isinstance(v.right, ast.Tuple) else [v.right]
            parts = re.split(r'%[ds]', v.left.value)
            if len(parts) == len(args) + 1 and all('%' not in x for x in parts) \
                    and all(isinstance(x, ast.Name) and x.id in self.params for x in args):
                tmpl = parts[0].replace('{', '{{').replace('}', '}}')
                for i, x in enumerate(parts[1:]):
                    tmpl += '{%d}' % i + x.replace('{', '{{').replace('}', '}}')
                return ('name', tmpl, [self.params.index(x.id) for x in args])
            raise UnknownIdiom('%s: attribute value %s' % (init.qual, short(v, 60)))
        if isinstance(v, ast.Constant) and isinstance(v.value, str):
            return ('const', v.value)   # a fixed text (e.g. a generated variable name that is the same for every node)
        if isinstance(v, (ast.List, ast.Dict, ast.Constant)):
            return ('other',)
        raise UnknownIdiom('%s: attribute value %s' % (init.qual, short(v, 60)))

    # -- src(): rendered text with attribute marks
    def _render(self, src: Func) -> List[str]:
        env: Dict[str, object] = {}
        where = src.qual
        m = src.module

        def ev(e):
            if isinstance(e, ast.Constant) and isinstance(e.value, str):
                return e.value
            if isinstance(e, ast.Name):
                if e.id in env:
                    return env[e.id]
                v = self.p.fold(m, e, None, src)
                if isinstance(v, str):
                    return v
                raise UnknownIdiom('%s: name %s' % (where, e.id))
            if isinstance(e, ast.JoinedStr):
                return ev(fstring_as_format(e, where))   # f'..{x}..' == '..{0}..'.format(x)
            if isinstance(e, ast.BinOp) and isinstance(e.op, ast.Mod) and isinstance(e.left, ast.Constant) and isinstance(e.left.value, str):
                return ev(percent_as_format(e, where))   # '..%s..' % (x,) == '..{0}..'.format(x)
            if isinstance(e, ast.BinOp) and isinstance(e.op, ast.Mult):
                # indentation: <whitespace constant> * <int expr>
                for side in (e.left, e.right):
                    v = self.p.fold(m, side, None, src)
                    if isinstance(v, str) and v.strip() == '':
                        return ''
                raise UnknownIdiom('%s: %s' % (where, short(e, 60)))
            if isinstance(e, ast.Attribute) and isinstance(e.value, ast.Name) and e.value.id == 'self':
                return mark(e.attr)
            if isinstance(e, ast.Call) and isinstance(e.func, ast.Attribute):
                f = e.func
                if isinstance(f.value, ast.Name) and f.value.id == 'self' and f.attr == '_children_src':
                    return CHILDREN
                if f.attr == 'format' and not e.keywords:
                    t = ev(f.value)
                    if not isinstance(t, str):
                        raise UnknownIdiom('%s: format on %s' % (where, short(f.value, 40)))
                    args = [ev(a) for a in e.args]
                    if not all(isinstance(a, str) for a in args):
                        raise UnknownIdiom('%s: format arguments of %s' % (where, short(e, 60)))
                    return _format(t, args, where, self.literal_attrs)
                if f.attr == 'join' and len(e.args) == 1 and not e.keywords:
                    sep = ev(f.value)
                    seq = ev(e.args[0])
                    if isinstance(sep, str) and isinstance(seq, list) and all(isinstance(x, str) for x in seq):
                        return sep.join(seq)
                if f.attr == 'replace' and len(e.args) == 2 and not e.keywords \
                        and all(isinstance(x, ast.Constant) and isinstance(x.value, str) for x in e.args):
                    # <attribute>.replace(<const>, <const>): a hand-written escape of the attribute's text.  The model tracks WHICH
                    # attribute lands in the source; whether the escape is sufficient for the position is R9's obligation.
                    inner = ev(f.value)
                    if isinstance(inner, str) and _MARK_RE.fullmatch(inner):
                        return inner
                raise UnknownIdiom('%s: call %s' % (where, short(e, 60)))
            if isinstance(e, ast.Call) and isinstance(e.func, ast.Name) and e.func.id in ('repr', 'ascii') and len(e.args) == 1 \
                    and not e.keywords and e.func.id not in env:
                inner = ev(e.args[0])     # repr(<attribute>): the same as {..!r}
                mm = _MARK_RE.fullmatch(inner) if isinstance(inner, str) else None
                if mm:
                    self.literal_attrs.add(mm.group(1))
                    return inner
                raise UnknownIdiom('%s: call %s' % (where, short(e, 60)))
            if isinstance(e, (ast.List, ast.Tuple)):
                return [ev(x) for x in e.elts]
            if isinstance(e, ast.BinOp) and isinstance(e.op, ast.Add):
                l, r = ev(e.left), ev(e.right)
                if isinstance(l, str) and isinstance(r, str):
                    return l + r
            raise UnknownIdiom('%s: expression %s' % (where, short(e, 60)))

        result = None
        for s in src.node.body:
            if isinstance(s, ast.Expr) and isinstance(s.value, ast.Constant):
                continue
            if isinstance(s, ast.Assign) and len(s.targets) == 1 and isinstance(s.targets[0], ast.Name):
                env[s.targets[0].id] = ev(s.value)
                continue
            if isinstance(s, ast.Return) and s.value is not None:
                result = ev(s.value)
                break
            if isinstance(s, ast.Raise):
                return []
            raise UnknownIdiom('%s: statement %s' % (where, short(s, 60)))
        if not isinstance(result, str):
            raise UnknownIdiom('%s: src() does not return rendered text' % where)
        return [ln.strip() for ln in result.split('\n')]

    # -- facts
    def code_lines(self) -> List[str]:
        """Rendered lines without comments and without the children block."""
        out = []
        for ln in self.lines:
            if ln == CHILDREN:
                continue
            ln = _strip_comment(ln)
            if ln:
                out.append(ln)
        return out

    def index_facts(self) -> List[Tuple[str, str, bool]]:
        """(generated table name, attribute used as index, is_slice)."""
        out = []
        for ln in self.code_lines():
            for m in re.finditer(r'([A-Za-z_]\w*)\[' + MARK_L + r'(\w+)' + MARK_R + r'(:?)\]', _blank_strings(ln)):
                out.append((m.group(1), m.group(2), bool(m.group(3))))
        return out

    def param_of_attr(self, attr: str) -> Optional[int]:
        s = self.attr_src.get(attr)
        return s[1] if s and s[0] == 'param' else None

    def fixed_text_of_attr(self, attr: str) -> Optional[str]:
        """The text an attribute renders as when it is the same for every
        instance of the construct (a string constant, or a name template
        without any placeholder); None when it depends on a constructor
        argument."""
        s = self.attr_src.get(attr)
        if s and s[0] == 'const':
            return s[1]
        if s and s[0] == 'name' and not s[2]:
            return _format(s[1], [], self.qual)
        return None

    def resolved_code_lines(self) -> List[str]:
        """code_lines() with the marks of instance-independent attributes
        replaced by their text (so that a variable name stored in such an
        attribute counts as the fixed name it is)."""
        def sub(m):
            t = self.fixed_text_of_attr(m.group(1))
            return m.group(0) if t is None else t
        return [_MARK_RE.sub(sub, ln) for ln in self.code_lines()]

    def assigned_attrs(self) -> Set[str]:
        """Attributes rendered as the target of a plain assignment
        (`<attr text> = ...`): generated variables this construct binds."""
        out = set()
        for ln in self.code_lines():
            m = re.match(MARK_L + r'(\w+)' + MARK_R + r'\s*=(?!=)', _blank_strings(ln))
            if m:
                out.add(m.group(1))
        return out

    def expression_attrs(self) -> Set[str]:
        """Attributes rendered in code position (outside string quotes) other
        than as a subscript index/slice bound or as an assignment target:
        their text is evaluated as an expression of the generated finder."""
        out = set()
        for ln in self.code_lines():
            b = _blank_strings(ln)
            tgt = re.match(MARK_L + r'(\w+)' + MARK_R + r'\s*=(?!=)', b)
            for m in _MARK_RE.finditer(b):
                if m.group(1).startswith(':') or m.group(1) in self.literal_attrs:
                    continue
                if tgt and m.start() == 0:
                    continue
                before, after = b[:m.start()], b[m.end():]
                if re.search(r'[\w\]\)]\[$', before) and re.match(r':?\]', after):
                    continue   # X[<attr>] / X[<attr>:]
                if re.search(r'\[:$', before) and after.startswith(']'):
                    continue   # X[:<attr>]
                out.add(m.group(1))
        return out


def _strip_comment(ln: str) -> str:
    out = []
    q = None
    for ch in ln:
        if q:
            out.append(ch)
            if ch == q:
                q = None
            continue
        if ch in '\'"':
            q = ch
        elif ch == '#':
            break
        out.append(ch)
    return ''.join(out).rstrip()


def _blank_strings(ln: str) -> str:
    """Replace the contents of quoted strings by nothing (keeps the quotes)."""
    out = []
    q = None
    for ch in ln:
        if q:
            if ch == q:
                q = None
                out.append(ch)
            continue
        if ch in '\'"':
            q = ch
        out.append(ch)
    return ''.join(out)


class CxModel:
    def __init__(self, project: Project):
        self.p = project
        m = project.module(MODULE)
        self.base_parent = MODULE + '._CxParent'
        self.base_child = MODULE + '._CxChild'
        project.cls(self.base_parent)
        project.cls(self.base_child)
        self.classes: Dict[str, CxClass] = {}
        for name, c in m.classes.items():
            if c.qual in (self.base_parent, self.base_child):
                continue
            if project.is_subclass(c.qual, self.base_parent) or project.is_subclass(c.qual, self.base_child):
                self.classes[c.qual] = CxClass(project, c, self.base_parent, self.base_child)
        if not self.classes:
            raise AnchorError('no _Cx construct classes found in %s' % MODULE)
        # header of the generated function
        comp = aliased_view(project, project.func(ROUTER + '._compile'))      # (`generate = self._generate_ast; generate(...)` is a call of the generator)
        self.compile_func = comp
        headers = [v for v in self.compile_strings() if re.match(r'\s*def\s+\w+\s*\(', v)]
        if len(headers) != 1:
            raise AnchorError('%s: expected one `def ...(` header literal, found %d' % (comp.qual, len(headers)))
        self.header = headers[0]
        try:
            fn = ast.parse(self.header.strip() + '\n    pass\n').body[0]
        except SyntaxError as e:
            raise UnknownIdiom('%s: header literal %r does not parse (%s)' % (comp.qual, self.header, e))
        self.gen_name = fn.name
        self.gen_params = [a.arg for a in fn.args.args]
        if fn.args.vararg or fn.args.kwarg or fn.args.kwonlyargs or fn.args.defaults:
            raise UnknownIdiom('%s: generated signature %r' % (comp.qual, self.header))
        self.compile_func = comp

    def compile_strings(self) -> List[str]:
        """The string literals of `_compile`, in source order: the constants written in the function and the
        module-level / class-level constants it names (a header or prologue line hoisted into a named constant is
        still the text the function emits)."""
        comp = self.compile_func
        out: List[str] = []
        bound = {x.id for x in walk_self(comp.node) if isinstance(x, ast.Name) and isinstance(x.ctx, (ast.Store, ast.Del))} | set(comp.params())
        nodes = [n for n in walk_self(comp.node) if isinstance(n, (ast.Constant, ast.Name, ast.Attribute)) and hasattr(n, 'lineno')]
        for n in sorted(nodes, key=lambda n: (n.lineno, n.col_offset)):
            if isinstance(n, ast.Constant):
                if isinstance(n.value, str):
                    out.append(n.value)
            elif isinstance(getattr(n, 'ctx', None), ast.Load) and not (isinstance(n, ast.Name) and n.id in bound):
                v = self.p.fold(comp.module, n, comp.cls, comp)
                if isinstance(v, str):
                    out.append(v)
        return out

    def of(self, t) -> Optional[CxClass]:
        if isinstance(t, Class):
            return self.classes.get(t.qual)
        return None

    def writers_of(self, name: str) -> List[CxClass]:
        """Constructs whose code stores into the generated variable `name`
        (subscript store or mutating method)."""
        pat = re.compile(r'(?<![\w.])' + re.escape(name) + r'\s*(\[[^\]]*\]\s*=(?!=)|\.\s*(update|setdefault|pop|popitem|clear|__setitem__)\s*\()')
        return [c for c in self.classes.values() if any(pat.search(ln) for ln in c.code_lines())]


# ---------------------------------------------------------------------------
# R9: which characters a piece of text rendered into the generated source can
# contain (template-derived text vs ints / generated names / constants)
# ---------------------------------------------------------------------------

NL, QUOTE, PUNCT = 'a line break', 'a quote or backslash', 'arbitrary punctuation'
RAW_HAZARDS = frozenset([NL, QUOTE, PUNCT])
# what a position of the generated source cannot take
FORBIDDEN = {
    'quoted': frozenset([NL, QUOTE]),        # '...{}...' : ends the literal / the line
    'comment': frozenset([NL]),              # # ... {}  : the rest of the text becomes code
    'bare': RAW_HAZARDS,                     # code position: only ints, generated names, developer-written constants
}


class Txt:
    """Upper bound on what a rendered value can contain: `haz` (hazard classes
    it may contain), `notes` (where the text comes from, for the witness),
    `deps` (validation steps the bound relies on; each is its own obligation),
    `is_int`."""

    __slots__ = ('haz', 'notes', 'deps', 'is_int')

    def __init__(self, haz=(), notes=(), deps=(), is_int=False):
        self.haz = frozenset(haz)
        self.notes = tuple(notes)
        self.deps = frozenset(deps)
        self.is_int = is_int

    def __or__(self, o: 'Txt') -> 'Txt':
        notes = self.notes + tuple(n for n in o.notes if n not in self.notes)
        return Txt(self.haz | o.haz, notes, self.deps | o.deps, False)

    def __repr__(self):
        return 'Txt(%s; %s)' % (sorted(self.haz) or 'harmless', '; '.join(self.notes))


INT_TXT = Txt(notes=('an int',), is_int=True)
REPR_TXT = Txt(notes=('rendered through repr()',))


class Seg:
    """A template segment (or an escaped copy of it): text outside field
    expressions + field expressions verbatim."""

    def __init__(self, note: str):
        self.note = note


def const_txt(s: str, what='a constant') -> Txt:
    haz = set()
    if '\n' in s or '\r' in s:
        haz.add(NL)
    if any(c in s for c in '\'"\\'):
        haz.add(QUOTE)
    return Txt(haz, ('%s %r' % (what, s),) if haz else ())


def join_txt(parts) -> Optional[Txt]:
    out = Txt()
    for t in parts:
        if t is None:
            return None
        out = out | t
    return out


def placeholder_positions(tmpl: str, where: str, with_quote: bool = False) -> List[tuple]:
    """(argument index, conversion, position, line skeleton) of every
    placeholder of a str.format template that renders generated source;
    position is 'quoted' / 'comment' / 'bare'.  With `with_quote` a fifth
    element gives the quote character a 'quoted' placeholder sits between
    (None elsewhere)."""
    try:
        parsed = list(string.Formatter().parse(tmpl))
    except ValueError as e:
        raise UnknownIdiom('%s: bad format template %r (%s)' % (where, tmpl, e))
    state = 'code'
    auto = 0
    skeleton: List[str] = []
    found = []
    for lit, field, spec, conv in parsed:
        i = 0
        while i < len(lit):
            ch = lit[i]
            if ch in '\n\r':
                state = 'code'
            elif state == 'code':
                if ch in '\'"':
                    state = ch
                elif ch == '#':
                    state = 'comment'
            elif state in ('\'', '"'):
                if ch == '\\':
                    i += 1
                elif ch == state:
                    state = 'code'
            i += 1
        skeleton.append(lit)
        if field is None:
            continue
        if spec:
            raise UnknownIdiom('%s: format spec in template %r' % (where, tmpl))
        if field == '':
            idx = auto
            auto += 1
        elif field.isdigit():
            idx = int(field)
        else:
            raise UnknownIdiom('%s: named/complex placeholder {%s} in %r' % (where, field, tmpl))
        skeleton.append('{%d%s}' % (idx, '!' + conv if conv else ''))
        lineno = ''.join(skeleton).count('\n')
        found.append((idx, conv, {'code': 'bare', 'comment': 'comment'}.get(state, 'quoted'), lineno,
                      state if state in ('\'', '"') else None))
    lines = ''.join(skeleton).split('\n')
    if with_quote:
        return [(idx, conv, pos, lines[ln].strip(), q) for (idx, conv, pos, ln, q) in found]
    return [(idx, conv, pos, lines[ln].strip()) for (idx, conv, pos, ln, _q) in found]


def peel_escape(e) -> Tuple[ast.AST, List[Tuple[str, str]]]:
    """(<base expression>, [(old, new), ...] innermost first) for
    `<base>.replace(<const>, <const>)...`: a hand-written escape function."""
    chain: List[Tuple[str, str]] = []
    while isinstance(e, ast.Call) and isinstance(e.func, ast.Attribute) and e.func.attr == 'replace' and len(e.args) == 2 \
            and not e.keywords and all(isinstance(x, ast.Constant) and isinstance(x.value, str) for x in e.args):
        chain.append((e.args[0].value, e.args[1].value))
        e = e.func.value
    chain.reverse()
    return e, chain


def apply_chain(chain: List[Tuple[str, str]], text: str) -> str:
    for old, new in chain:
        text = text.replace(old, new)
    return text


ORDINARY_CHARS = 'aZ09_ {}.-/%ntxru\u00e9'


def escape_effect(chain: List[Tuple[str, str]], pos: str, quote: Optional[str], where: str) -> Tuple[FrozenSet[str], List[str], Dict[str, List[str]]]:
    """What a chain of single-character `.replace` calls (a string
    homomorphism: the image of a text is the concatenation of the images of
    its characters) does to text placed at a position of the generated source,
    decided on the alphabet {backslash, ', ", CR, LF, ordinary characters}:
    -> (hazard classes it neutralises, ordinary characters whose denotation it
    changes, hazard class -> characters of it that are not handled).  Between quotes a character is handled iff quote + image + quote
    is a Python literal that denotes exactly that character; in a comment iff
    its image has no line break.  The replace constants are data read from the
    analysed tree; only str.replace / ast.literal_eval of the stdlib run."""
    if not chain:
        return frozenset(), [], {}
    if any(len(old) != 1 for old, _new in chain):
        raise UnknownIdiom('%s: escape by .replace() of a pattern that is not one character (not a character-wise mapping)' % where)

    def image(c: str) -> str:
        for old, new in chain:
            c = c.replace(old, new)
        return c

    def denotes(c: str) -> bool:
        if pos == 'comment':
            return not any(x in image(c) for x in '\n\r')
        try:
            return ast.literal_eval(quote + image(c) + quote) == c
        except Exception:
            return False

    if pos == 'quoted':
        if quote not in ('\'', '"'):
            raise UnknownIdiom('%s: hand-escaped text between unknown quotes' % where)
    elif pos != 'comment':
        raise UnknownIdiom('%s: hand-escaped text in code position' % where)
    failing = {haz: [c for c in PROBE_CHARS[haz] if not denotes(c)] for haz in (NL, QUOTE)}
    neutral = {haz for haz in (NL, QUOTE) if not failing[haz]}
    altered = [c for c in ORDINARY_CHARS if pos == 'quoted' and not denotes(c)]
    return frozenset(neutral), altered, failing


def replacement_parts(repl: str) -> Tuple[str, List[object]]:
    """(literal text, group references) of an re.sub replacement template."""
    lit: List[str] = []
    refs: List[object] = []
    i = 0
    while i < len(repl):
        ch = repl[i]
        if ch != '\\' or i + 1 >= len(repl):
            lit.append(ch)
            i += 1
            continue
        nx = repl[i + 1]
        if nx == 'g':
            m = re.match(r'g<([^>]*)>', repl[i + 1:])
            if not m:
                raise ValueError(repl)
            g = m.group(1)
            refs.append(int(g) if g.isdigit() else g)
            i += 1 + m.end()
        elif nx.isdigit():
            m = re.match(r'\d{1,2}', repl[i + 1:])
            refs.append(int(m.group(0)))
            i += 1 + m.end()
        else:
            lit.append({'n': '\n', 'r': '\r', 't': '\t', '\\': '\\'}.get(nx, nx))
            i += 2
    return ''.join(lit), refs


# Calls that receive template text inside the validator without restricting its characters (DESIGN 1.3 item 5:
# one symbol, one reason; the entry only applies while the callee still hands the text to eval()).
VALIDATION_LOOKALIKES = {
    ROUTER + '._instantiate_converter': 'evaluates the text as a Python argument list with eval(): line breaks, quotes and parentheses '
                                        'are all legal inside it, so a successful instantiation restricts none of them',
}


PROBE_CHARS = {NL: '\n\r', QUOTE: '\'"\\', PUNCT: ' \t#(){}:.,-=/'}


def probe_regex(pattern: str, method: str) -> Tuple[bool, Dict[str, List[str]]]:
    """Runs the (constant) validator pattern on a fixed probe set: does it
    accept a plain identifier, and which hazard classes does it let through
    (sample strings)?  The pattern text is data read from the analysed tree;
    only the stdlib `re` engine runs."""
    rx = re.compile(pattern)
    fn = getattr(rx, method)
    accepted: Dict[str, List[str]] = {}
    for haz, chars in PROBE_CHARS.items():
        for c in chars:
            for s in (c, 'a' + c, c + 'a', 'a' + c + 'a', 'a' + c + c, 'a1_' + c):
                if fn(s):
                    accepted.setdefault(haz, []).append(s)
    return bool(fn('a')) and bool(fn('field_1')), accepted


class TemplateText:
    """Reads, from the router's own code, where each piece of text that the
    generator hands to a construct comes from and which characters it can
    contain.

    Sources (each read off the analysed code, not assumed):
    * the groups of the field-expression pattern: a group is *validated* when
      `_validate_template_segment` passes it to <compiled regex constant>.match/
      fullmatch and raises on a falsy result (obligation V1 probes that regex),
      or tests it for membership in the converter map (V2); any other group
      (argstr) is raw text;
    * CompiledRouterNode attributes, from the stores in its constructor:
      group values, tuples of group values, the segment itself, a compiled
      pattern built from the segment;
    * text outside field expressions: free of whitespace iff add_route rejects
      whitespace after substituting the field expressions (V3)."""

    def __init__(self, project: Project, model: 'CxModel', cfg_of):
        self.p = project
        self.model = model
        self.mod = project.module(MODULE)
        self.cfg_of = cfg_of
        self.node_init = project.func(NODE + '.__init__')
        self.validator = project.func(ROUTER + '._validate_template_segment')
        self.add_route = project.func(ROUTER + '.add_route')
        self.field_const, self.field_src = self._field_pattern()
        try:
            self.groupindex = dict(re.compile(self.field_src).groupindex)
        except re.error as e:
            raise UnknownIdiom('%s does not compile: %s' % (self.field_const, e))
        self.group_names = {v: k for k, v in self.groupindex.items()}
        self._unguarded: Set[int] = set()
        self.validators = self._read_validator()      # group -> ('regex', const, pattern, method, call) | ('member', attr, test)
        self._ws = None
        self.node_attrs = self._read_node_init()      # attr -> ('group', g) | ('groups', [g]) | ('seg',) | ('regex', Txt|None) | ('raw',)

    # ------------------------------------------------------------ constants
    def regex_const(self, name: str) -> Optional[str]:
        v = self.mod.consts.get(name)
        if isinstance(v, ast.Call) and len(v.args) == 1 and not v.keywords:
            fn = v.func
            if (isinstance(fn, ast.Attribute) and fn.attr == 'compile' and isinstance(fn.value, ast.Name) and fn.value.id == 're') \
                    or (isinstance(fn, ast.Name) and fn.id == 'compile'):
                s = self.p.fold(self.mod, v.args[0], None, None)
                if isinstance(s, str):
                    return s
        return None

    def _field_pattern(self) -> Tuple[str, str]:
        names = set()
        for n in walk_self(self.node_init.node):
            if isinstance(n, ast.Call) and isinstance(n.func, ast.Attribute) and n.func.attr in ('finditer', 'findall') \
                    and isinstance(n.func.value, ast.Name) and self.regex_const(n.func.value.id) is not None:
                names.add(n.func.value.id)
        if len(names) != 1:
            raise AnchorError('%s: the compiled field-expression pattern (<CONST>.finditer(segment)) was not found' % self.node_init.qual)
        name = names.pop()
        return name, self.regex_const(name)

    # ------------------------------------------------------------ validator
    @staticmethod
    def _group_of(v) -> Optional[str]:
        """g for `<m>.group('g')`."""
        if isinstance(v, ast.Call) and isinstance(v.func, ast.Attribute) and v.func.attr == 'group' and len(v.args) == 1 \
                and isinstance(v.args[0], ast.Constant) and isinstance(v.args[0].value, str) and not v.keywords:
            return v.args[0].value
        return None

    def _groups_reaching(self, rd: ReachingDefs, nid: int, e) -> Optional[Set[str]]:
        if self._group_of(e) is not None:
            return {self._group_of(e)}
        if not isinstance(e, ast.Name):
            return None
        out = set()
        for d in rd.at(nid, e.id):
            g = self._group_of(rd.def_value(d, e.id)) if d != ENTRY_DEF else None
            if g is None:
                return None
            out.add(g)
        return out or None

    def _raising_guard(self, f: Func, falsy: Set[int], names: Set[str]) -> Optional[ast.If]:
        """An `if` that raises when the AST nodes `falsy` / locals `names`
        are falsy: its test is then true and its body ends in a raise, or its
        test is then false and its else-branch ends in a raise."""
        def hook(e, env):
            return None if id(e) in falsy else NotImplemented
        ev = Evaluator(f.qual, call_hook=hook)
        for n in walk_self(f.node):
            if isinstance(n, ast.If):
                if not any(id(x) in falsy or (isinstance(x, ast.Name) and x.id in names) for x in ast.walk(n.test)):
                    continue
                v = ev.ev(n.test, {nm: None for nm in names})
                if v is UNK:
                    continue
                branch = n.body if _truth(v) else n.orelse
                if branch and isinstance(branch[-1], ast.Raise):
                    return n
        return None

    def _tested_somewhere(self, f: Func, ids: Set[int], names: Set[str]) -> Optional[str]:
        """Text of a test / boolean context that looks at the given call or locals."""
        def hit(e):
            return any(id(x) in ids or (isinstance(x, ast.Name) and x.id in names and isinstance(x.ctx, ast.Load)) for x in ast.walk(e))
        for n in walk_self(f.node):
            if isinstance(n, (ast.If, ast.While, ast.IfExp)) and hit(n.test):
                return short(n.test, 60)
            if isinstance(n, ast.Assert) and hit(n.test):
                return 'assert ' + short(n.test, 60)
            if isinstance(n, ast.BoolOp) and hit(n):
                return short(n, 60)
            if isinstance(n, (ast.Return, ast.Raise)) and getattr(n, 'value', None) is not None and hit(n.value):
                return short(n, 60)
        return None

    def _read_validator(self) -> Dict[str, tuple]:
        f = self.validator
        cfg = self.cfg_of(f, self.p)
        rd = ReachingDefs(cfg)
        out: Dict[str, tuple] = {}
        for n in cfg.live_nodes():
            if n.copy:
                continue
            for c in n.calls():
                if isinstance(c.func, ast.Attribute) and c.func.attr in ('match', 'fullmatch', 'search') and isinstance(c.func.value, ast.Name) \
                        and self.regex_const(c.func.value.id) is not None and len(c.args) == 1 and not c.keywords:
                    groups = self._groups_reaching(rd, n.id, c.args[0])
                    if not groups or len(groups) != 1:
                        continue
                    names = set()
                    if n.kind == 'stmt' and isinstance(n.ast, (ast.Assign, ast.AnnAssign)) and n.ast.value is c:
                        names = set(node_defs(n))
                    guard = self._raising_guard(f, {id(c)}, names)
                    if guard is not None:
                        out.setdefault(next(iter(groups)), ('regex', c.func.value.id, self.regex_const(c.func.value.id), c.func.attr, c))
                    else:
                        odd = self._tested_somewhere(f, {id(c)}, names)
                        if odd is not None:
                            raise UnknownIdiom('%s: the result of %s is examined by `%s`, which is not an if-statement that raises when '
                                               'the match fails' % (f.qual, short(c, 50), odd))
                        self._unguarded.add(id(c))   # the match result is never looked at: not a validation
            # membership in the converter map:  if <group> not in self.<map>: raise
            if n.kind == 'test':
                for cmp_ in [x for x in ast.walk(n.ast) if isinstance(x, ast.Compare)]:
                    if len(cmp_.ops) == 1 and isinstance(cmp_.ops[0], ast.NotIn) and isinstance(cmp_.comparators[0], ast.Attribute) \
                            and isinstance(cmp_.comparators[0].value, ast.Name) and cmp_.comparators[0].value.id == 'self':
                        groups = self._groups_reaching(rd, n.id, cmp_.left)
                        st = n.stmt
                        if groups and len(groups) == 1 and isinstance(st, ast.If) and st.test is n.ast and cmp_ is st.test \
                                and st.body and isinstance(st.body[-1], ast.Raise):
                            out.setdefault(next(iter(groups)), ('member', cmp_.comparators[0].attr, cmp_))
        return out

    def unrecognised_validation(self, g: str) -> Optional[str]:
        """A use of group g inside the validator that might be a validation
        of a shape this rule does not read (so that 'not validated' is not
        concluded from it)."""
        f = self.validator
        bound = set()
        for n in walk_self(f.node):
            if isinstance(n, ast.Assign) and self._group_of(n.value) == g:
                for t in n.targets:
                    bound.update(_target_names(t))

        def is_g(e):
            return self._group_of(e) == g or (isinstance(e, ast.Name) and e.id in bound)

        for n in walk_self(f.node):
            if isinstance(n, ast.Call):
                fn = n.func
                t = self.p.callee(f, n)
                if isinstance(t, Func) and t.qual in VALIDATION_LOOKALIKES and any(
                        isinstance(x, ast.Call) and isinstance(x.func, ast.Name) and x.func.id == 'eval' for x in walk_self(t.node)):
                    continue
                if id(n) in self._unguarded:
                    continue
                if isinstance(fn, ast.Attribute) and is_g(fn.value) and fn.attr not in ('format',):
                    return short(n, 60)
                if any(is_g(a) for a in n.args) and not (isinstance(fn, ast.Attribute) and fn.attr in ('format', 'add', 'append', 'group')):
                    return short(n, 60)
        return None

    def group_txt(self, g) -> Txt:
        if isinstance(g, int):
            g = self.group_names.get(g, g)
        if g == 0 or isinstance(g, int):
            return Txt(RAW_HAZARDS, ('group %s of the field expression (unvalidated text of the template)' % g,))
        v = self.validators.get(g)
        if v is None:
            odd = self.unrecognised_validation(g)
            if odd is not None:
                raise UnknownIdiom('%s: group %r of the field expression is examined by %s; this rule reads validation only as '
                                   '<compiled regex>.match/fullmatch(...) or membership in a router table, followed by a raise'
                                   % (self.validator.qual, g, odd))
            return Txt(RAW_HAZARDS, ('group %r of the field expression, copied verbatim from the URI template '
                                     '(no validation: it may contain line breaks and quotes)' % g,))
        if v[0] == 'regex':
            return Txt((), ('group %r of the field expression, validated by %s.%s()' % (g, v[1], v[3]),), deps=['regex:' + g])
        return Txt((), ('group %r of the field expression, required to be a key of self.%s' % (g, v[1]),), deps=['member:' + g])

    # ------------------------------------------------------------ whitespace outside field expressions
    def _is_split(self, v) -> bool:
        """`<template parameter of add_route>[.strip()...].split('/')`."""
        f = self.add_route
        if not (isinstance(v, ast.Call) and isinstance(v.func, ast.Attribute) and v.func.attr == 'split' and len(v.args) == 1
                and isinstance(v.args[0], ast.Constant) and v.args[0].value == '/'):
            return False
        root = v.func.value
        while isinstance(root, (ast.Call, ast.Attribute)):
            root = root.func if isinstance(root, ast.Call) else root.value
        return isinstance(root, ast.Name) and root.id in f.params()

    def _split_locals(self) -> Set[str]:
        out = set()
        for n in walk_self(self.add_route.node):
            if isinstance(n, (ast.Assign, ast.AnnAssign)) and n.value is not None and self._is_split(n.value):
                for t in (n.targets if isinstance(n, ast.Assign) else [n.target]):
                    if isinstance(t, ast.Name):
                        out.add(t.id)
        return out

    def _segment_vars(self) -> Set[str]:
        """Loop variables of add_route that run over the '/'-separated pieces of the template parameter."""
        f = self.add_route
        split_locals = self._split_locals()
        out = set()
        for n in walk_self(f.node):
            if isinstance(n, ast.For) and isinstance(n.target, ast.Name) and (
                    self._is_split(n.iter) or (isinstance(n.iter, ast.Name) and n.iter.id in split_locals)):
                out.add(n.target.id)
        return out

    def _segment_loops(self) -> List[Tuple[Func, Set[str]]]:
        """(function, its loop variables that run over the '/'-separated pieces of the template): add_route itself, and
        a method of the same class that add_route hands the split list to (`self._validate_template(path)`) and that
        walks this parameter, never re-bound, with a plain `for`."""
        f = self.add_route
        out = [(f, self._segment_vars())]
        split_locals = self._split_locals()
        for c in walk_self(f.node):
            if not (isinstance(c, ast.Call) and not c.keywords):
                continue
            h = self.p.callee(f, c)
            if not isinstance(h, Func) or h is f or h is self.validator or h.cls is None or h.cls is not f.cls:
                continue
            names = [x for x in h.params() if x not in ('self', 'cls')]
            fed = {prm for prm, a in zip(names, c.args) if self._is_split(a) or (isinstance(a, ast.Name) and a.id in split_locals)}
            fed = {prm for prm in fed if not any(isinstance(x, ast.Name) and x.id == prm and isinstance(x.ctx, (ast.Store, ast.Del)) for x in walk_self(h.node))}
            if fed:
                out.append((h, {n.target.id for n in walk_self(h.node) if isinstance(n, ast.For) and isinstance(n.target, ast.Name)
                                and isinstance(n.iter, ast.Name) and n.iter.id in fed}))
        return out

    def _piece_kind(self, f: Func, name: str) -> Optional[str]:
        """'template' (the whole URI template) / 'segment' (one '/'-separated piece) / None."""
        if f is self.add_route:
            if name in self._segment_vars():
                return 'segment'
            if name in f.params() and name != 'self':
                return 'template'
            return None
        if f is self.validator:
            # the validator's parameter that add_route (or the method it hands the split list to) feeds with a segment
            names = [x for x in f.params() if x not in ('self', 'cls')]
            for (g, segvars) in self._segment_loops():
                for c in walk_self(g.node):
                    if isinstance(c, ast.Call) and self.p.callee(g, c) is f and not c.keywords:
                        for prm, a in zip(names, c.args):
                            if prm == name and isinstance(a, ast.Name) and a.id in segvars:
                                return 'segment'
        return None

    def field_spans_slash(self) -> Optional[str]:
        """A sample showing that one field expression can contain '/', else None."""
        rx = re.compile(self.field_src)
        for s in ('{a:b(c/d)}', '{a:b/c}', '{a/b}'):
            m = rx.search(s)
            if m and '/' in m.group(0):
                return s
        return None

    def ws_check(self):
        """(status, function, if-node, note): status 'proved' | 'spans' |
        'absent'; UnknownIdiom for an unreadable shape.  A check is a test
        `re.search(<P>, <FIELD>.sub(<C>, X))` guarding a raise, P matching line
        breaks.  It proves "a segment's text outside its own field expressions
        has no whitespace" when X is a segment, or when X is the whole template
        and a field expression cannot contain '/' (otherwise the split cuts the
        field and its whitespace becomes literal text of a segment)."""
        if self._ws is not None:
            return self._ws
        cands = []
        for f in (self.add_route, self.validator):
            subs = [c for c in walk_self(f.node) if isinstance(c, ast.Call) and isinstance(c.func, ast.Attribute) and c.func.attr == 'sub'
                    and isinstance(c.func.value, ast.Name) and c.func.value.id == self.field_const]
            used = set()
            for n in walk_self(f.node):
                if not (isinstance(n, ast.If) and n.body and isinstance(n.body[-1], ast.Raise)):
                    continue
                inside = [c for c in subs if any(x is c for x in ast.walk(n.test))]
                # a local bound exactly once to the substitution and named in the test stands for it
                #   (`without_fields = <FIELD>.sub('{FIELD}', template)`; `if re.search(r'\s', without_fields): raise`)
                via = {}
                for x in ast.walk(n.test):
                    if isinstance(x, ast.Name) and isinstance(x.ctx, ast.Load):
                        bs = [b for b in walk_self(f.node) if isinstance(b, (ast.Assign, ast.AnnAssign, ast.AugAssign, ast.For, ast.NamedExpr, ast.With))
                              and any(isinstance(y, ast.Name) and y.id == x.id and isinstance(y.ctx, ast.Store) for y in ast.walk(b))]
                        if len(bs) == 1 and isinstance(bs[0], (ast.Assign, ast.AnnAssign)) and any(bs[0].value is c for c in subs) \
                                and x.id not in f.params():
                            via[id(x)] = bs[0].value
                            inside.append(bs[0].value)
                if not inside:
                    continue
                used.update(id(c) for c in inside)
                t = n.test
                kind = None
                if isinstance(t, ast.Call) and isinstance(t.func, ast.Attribute) and t.func.attr == 'search' and len(t.args) == 2 \
                        and (t.args[1] is inside[0] or via.get(id(t.args[1])) is inside[0]) and len(inside[0].args) == 2 and isinstance(inside[0].args[1], ast.Name):
                    pat = self.p.fold(self.mod, t.args[0], None, f)
                    repl = self.p.fold(self.mod, inside[0].args[0], None, f)
                    if isinstance(pat, str) and isinstance(repl, str):
                        try:
                            rx = re.compile(pat)
                        except re.error:
                            rx = None
                        if rx is not None and not rx.search(replacement_parts(repl)[0]):
                            kind = self._piece_kind(f, inside[0].args[1].id)
                            if kind is not None and not all(rx.search('a' + c + 'b') for c in '\n\r'):
                                continue   # a readable check that lets line breaks through: proves nothing here
                if kind is None:
                    raise UnknownIdiom('%s: the test `%s` looks at template text with its field expressions substituted; this rule reads the '
                                       'whitespace check only as re.search(<pattern matching line breaks>, %s.sub(<constant>, <template or '
                                       'segment>))' % (f.qual, short(t, 80), self.field_const))
                cands.append((kind, f, n))
            if any(id(c) not in used for c in subs):
                raise UnknownIdiom('%s: %s.sub(...) is used outside a raising test; whitespace check not understood' % (f.qual, self.field_const))
        seg = [c for c in cands if c[0] == 'segment']
        tpl = [c for c in cands if c[0] == 'template']
        if seg:
            res = ('proved', seg[0][1], seg[0][2], 'each segment is checked')
        elif tpl:
            span = self.field_spans_slash()
            if span is None:
                res = ('proved', tpl[0][1], tpl[0][2], 'the whole template is checked and a field expression cannot contain "/"')
            else:
                res = ('spans', tpl[0][1], tpl[0][2], 'the whole template is checked, but %s matches %r: a field expression may span "/", the '
                       'split cuts it and the whitespace inside it becomes literal text of a segment' % (self.field_const, span))
        else:
            res = ('absent', self.add_route, None, 'no whitespace check on template text with its field expressions substituted')
        self._ws = res
        return res

    def outside_txt(self) -> Txt:
        return Txt([QUOTE, PUNCT], ('template text outside field expressions (any non-whitespace character)',), deps=['ws'])

    def seg_flat(self, s: Seg) -> Txt:
        return Txt(RAW_HAZARDS, ('%s: its field expressions are copied verbatim and may contain line breaks / quotes' % s.note,))

    # ------------------------------------------------------------ CompiledRouterNode.__init__
    def _read_node_init(self) -> Dict[str, tuple]:
        f = self.node_init
        cfg = self.cfg_of(f, self.p)
        rd = ReachingDefs(cfg)
        params = f.params()[1:]
        found: Dict[str, List[tuple]] = {}

        def harmless(v) -> bool:
            return (isinstance(v, ast.Constant) and not isinstance(v.value, str)) or (isinstance(v, (ast.List, ast.Dict, ast.Tuple, ast.Set))
                                                                                      and not getattr(v, 'elts', getattr(v, 'keys', None)))

        def seg_eval(e, nid, depth=0):
            """Seg | Txt | None"""
            if depth > 10:
                return None
            if isinstance(e, ast.Constant) and isinstance(e.value, str):
                return const_txt(e.value)
            if isinstance(e, ast.Name):
                vals = []
                for d in rd.at(nid, e.id):
                    if d == ENTRY_DEF:
                        if e.id in params and found.get('$segment_param') == e.id:
                            vals.append(Seg('the template segment'))
                        else:
                            return None
                    else:
                        v = rd.def_value(d, e.id)
                        if v is None:
                            return None
                        vals.append(seg_eval(v, d, depth + 1))
                if not vals or any(v is None for v in vals):
                    return None
                if all(isinstance(v, Seg) for v in vals):
                    return vals[0]
                return join_txt([self.seg_flat(v) if isinstance(v, Seg) else v for v in vals])
            if isinstance(e, ast.BinOp) and isinstance(e.op, ast.Add):
                l, r = seg_eval(e.left, nid, depth + 1), seg_eval(e.right, nid, depth + 1)
                if l is None or r is None:
                    return None
                return join_txt([self.seg_flat(v) if isinstance(v, Seg) else v for v in (l, r)])
            if isinstance(e, ast.Call) and isinstance(e.func, ast.Attribute) and e.func.attr == 'sub' and not e.keywords:
                recv = e.func.value
                if isinstance(recv, ast.Name) and recv.id == 're' and len(e.args) == 3:
                    pat, repl, x = self.p.fold(self.mod, e.args[0], None, f), self.p.fold(self.mod, e.args[1], None, f), e.args[2]
                    field = False
                elif isinstance(recv, ast.Name) and self.regex_const(recv.id) is not None and len(e.args) == 2:
                    pat, repl, x = self.regex_const(recv.id), self.p.fold(self.mod, e.args[0], None, f), e.args[1]
                    field = recv.id == self.field_const
                else:
                    return None
                if not isinstance(pat, str) or not isinstance(repl, str):
                    return None
                try:
                    lit, refs = replacement_parts(repl)
                except ValueError:
                    return None
                xv = seg_eval(x, nid, depth + 1)
                if xv is None:
                    return None
                if field:
                    # every field expression is replaced by constant text + the referenced groups
                    parts = [const_txt(lit, 'replacement text')] + [self.group_txt(g) for g in refs]
                    parts.append(self.outside_txt() if isinstance(xv, Seg) else xv)
                    return join_txt(parts)
                if isinstance(xv, Seg):
                    # character-level escaping keeps the segment structure if it neither matches nor inserts
                    # the delimiters of a field expression
                    if any(c in pat for c in '{}:') or any(c in lit for c in '{}:(\n\r') or any(g != 0 for g in refs):
                        return self.seg_flat(xv) | const_txt(lit, 'replacement text')
                    return Seg(xv.note + ' (escaped)')
                return xv | const_txt(lit, 'replacement text')
            return None

        # the parameter that is the segment: the one stored as self.raw_segment-like attribute AND searched for field expressions
        for n in walk_self(f.node):
            if isinstance(n, ast.Call) and isinstance(n.func, ast.Attribute) and n.func.attr in ('finditer', 'findall') \
                    and isinstance(n.func.value, ast.Name) and n.func.value.id == self.field_const and len(n.args) == 1 \
                    and isinstance(n.args[0], ast.Name) and n.args[0].id in params:
                found['$segment_param'] = n.args[0].id
        if '$segment_param' not in found:
            raise UnknownIdiom('%s: the parameter searched for field expressions was not identified' % f.qual)
        seg_param = found['$segment_param']

        for n in cfg.live_nodes():
            if n.copy or n.kind != 'stmt':
                continue
            a = n.ast
            if isinstance(a, (ast.Assign, ast.AnnAssign)) and a.value is not None:
                for t in (a.targets if isinstance(a, ast.Assign) else [a.target]):
                    if not (isinstance(t, ast.Attribute) and isinstance(t.value, ast.Name) and t.value.id == 'self'):
                        continue
                    v = a.value
                    if harmless(v):
                        continue
                    if isinstance(v, ast.Name) and v.id == seg_param:
                        found.setdefault(t.attr, []).append(('seg',))
                    elif isinstance(v, ast.Name) and v.id in params:
                        found.setdefault(t.attr, []).append(('param', v.id))
                    elif self._group_of(v) is not None:
                        found.setdefault(t.attr, []).append(('group', self._group_of(v)))
                    elif isinstance(v, ast.Call) and isinstance(v.func, ast.Attribute) and v.func.attr == 'compile' \
                            and isinstance(v.func.value, ast.Name) and v.func.value.id == 're' and len(v.args) == 1 and not v.keywords:
                        r = seg_eval(v.args[0], n.id)
                        found.setdefault(t.attr, []).append(('regex', self.seg_flat(r) if isinstance(r, Seg) else r))
                    elif isinstance(v, ast.Call) and isinstance(v.func, ast.Name) and v.func.id in ('len', 'bool', 'int'):
                        continue
                    else:
                        found.setdefault(t.attr, []).append(('unknown', short(v, 60)))
            elif isinstance(a, ast.Expr) and isinstance(a.value, ast.Call) and isinstance(a.value.func, ast.Attribute) \
                    and a.value.func.attr in ('append', 'insert', 'extend', 'add') and isinstance(a.value.func.value, ast.Attribute) \
                    and isinstance(a.value.func.value.value, ast.Name) and a.value.func.value.value.id == 'self':
                attr = a.value.func.value.attr
                c = a.value
                if a.value.func.attr == 'append' and len(c.args) == 1 and isinstance(c.args[0], ast.Tuple) \
                        and all(self._group_of(x) is not None for x in c.args[0].elts):
                    found.setdefault(attr, []).append(('groups', tuple(self._group_of(x) for x in c.args[0].elts)))
                else:
                    found.setdefault(attr, []).append(('unknown', short(c, 60)))
        out: Dict[str, tuple] = {}
        for attr, vals in found.items():
            if attr.startswith('$'):
                continue
            kinds = set(vals)
            out[attr] = vals[0] if len(kinds) == 1 else ('unknown', 'assigned in several ways: %s' % sorted(str(k[0]) for k in kinds))
        return out

    def node_attr_txt(self, attr: str, sub: Optional[str] = None):
        """Txt | Seg | None for `<node>.<attr>` (sub='pattern' for `<node>.<attr>.pattern`)."""
        k = self.node_attrs.get(attr)
        if k is None:
            return None
        if sub is not None:
            if k[0] == 'regex' and sub == 'pattern' and k[1] is not None:
                return Txt(k[1].haz, ('the source text of the compiled pattern %s' % attr,) + k[1].notes, k[1].deps)
            return None
        if k[0] == 'group':
            return self.group_txt(k[1])
        if k[0] == 'seg':
            return Seg('the template segment (%s)' % attr)
        return None

    # ------------------------------------------------------------ origin of a value inside a generator function
    def _is_int_param(self, f: Func, name: str) -> bool:
        a = f.node.args
        for x in a.posonlyargs + a.args + a.kwonlyargs:
            if x.arg == name and x.annotation is not None and ast.unparse(x.annotation) == 'int':
                return True
        return False

    def _bindings(self, f: Func, name: str, env, depth) -> Optional[List[Optional[Txt]]]:
        """One entry per binding of local `name` in f (None = not understood)."""
        out: List[Optional[Txt]] = []

        def tuple_pos(target, value_groups_of):
            names = [e.id if isinstance(e, ast.Name) else None for e in target.elts]
            if name not in names:
                return
            k = names.index(name)
            groups = value_groups_of
            out.append(self.group_txt(groups[k]) if groups is not None and k < len(groups) and len(groups) == len(names) else None)

        def groups_attr(e) -> Optional[tuple]:
            """groups of the tuples stored in `<x>.<attr>` when e denotes one element of it / the list itself"""
            if isinstance(e, ast.Attribute) and self.node_attrs.get(e.attr, ('',))[0] == 'groups':
                return self.node_attrs[e.attr][1]
            return None

        for n in walk_self(f.node):
            if isinstance(n, (ast.Assign, ast.AnnAssign)) and n.value is not None:
                for t in (n.targets if isinstance(n, ast.Assign) else [n.target]):
                    if isinstance(t, ast.Name) and t.id == name:
                        out.append(self.origin(f, n.value, env, depth + 1))
                    elif isinstance(t, (ast.Tuple, ast.List)) and name in _target_names(t):
                        v = n.value
                        if isinstance(v, ast.Subscript) and not isinstance(v.slice, ast.Slice) and groups_attr(v.value) is not None:
                            tuple_pos(t, groups_attr(v.value))
                        elif isinstance(v, (ast.Tuple, ast.List)) and len(v.elts) == len(t.elts) and all(isinstance(e, ast.Name) for e in t.elts):
                            k = [e.id for e in t.elts].index(name)
                            out.append(self.origin(f, v.elts[k], env, depth + 1))
                        else:
                            out.append(None)
            elif isinstance(n, ast.AugAssign) and name in _target_names(n.target):
                # `i += <int>`: stays an int if every other binding is one (the caller joins all bindings)
                step = self.origin(f, n.value, env, depth + 1) if isinstance(n.op, (ast.Add, ast.Sub, ast.Mult)) else None
                out.append(INT_TXT if step is not None and step.is_int else None)
            elif isinstance(n, (ast.For, ast.AsyncFor)) and name in _target_names(n.target):
                tgt, it = n.target, n.iter
                q = self.p.resolve_callable(f, it.func) if isinstance(it, ast.Call) and isinstance(it.func, (ast.Name, ast.Attribute)) else None
                if q == 'builtins.enumerate' and isinstance(n, ast.For):
                    # `for i, elem in enumerate(seq[, start])`: i is an int counter, elem an element of seq
                    if not (isinstance(tgt, (ast.Tuple, ast.List)) and len(tgt.elts) == 2 and 1 <= len(it.args) <= 2
                            and not any(isinstance(a, ast.Starred) for a in it.args) and all(k.arg == 'start' for k in it.keywords)):
                        out.append(None)
                        continue
                    if isinstance(tgt.elts[0], ast.Name) and tgt.elts[0].id == name:
                        out.append(INT_TXT)
                        continue
                    tgt, it = tgt.elts[1], it.args[0]
                elif q == 'builtins.range' and isinstance(tgt, ast.Name):
                    out.append(INT_TXT)
                    continue
                if isinstance(tgt, (ast.Tuple, ast.List)) and groups_attr(it) is not None and name in [
                        e.id if isinstance(e, ast.Name) else None for e in tgt.elts]:
                    tuple_pos(tgt, groups_attr(it))
                else:
                    out.append(None)
            elif isinstance(n, ast.NamedExpr) and isinstance(n.target, ast.Name) and n.target.id == name:
                out.append(None)
            elif isinstance(n, ast.comprehension) and name in _target_names(n.target):
                out.append(None)
        return out

    def ctor_arg(self, cx: 'CxClass', call: ast.Call, i: int):
        """(expression bound to constructor parameter i at `call`, function in whose scope it is written)"""
        if any(isinstance(a, ast.Starred) for a in call.args) or any(k.arg is None for k in call.keywords):
            raise UnknownIdiom('construction %s' % short(call, 80))
        if i < len(call.args):
            return call.args[i], None
        if i < len(cx.params):
            for k in call.keywords:
                if k.arg == cx.params[i]:
                    return k.value, None
            init = self.p.lookup_method(cx.qual, '__init__')
            a = init.node.args
            pos = a.posonlyargs + a.args
            j = i + 1 - (len(pos) - len(a.defaults))
            if 0 <= j < len(a.defaults):
                return a.defaults[j], init
        raise UnknownIdiom('construction %s: no argument for parameter %d of %s' % (short(call, 80), i, cx.name))

    def cx_attr_txt(self, cx: 'CxClass', attr: str, f: Func, call: ast.Call, env=None, depth=0) -> Optional[Txt]:
        """What `self.<attr>` of the construct created by `call` (in f) renders as."""
        src = cx.attr_src.get(attr)
        if src is None:
            return None
        if src[0] == 'const':
            return const_txt(src[1])
        if src[0] == 'param':
            e, scope = self.ctor_arg(cx, call, src[1])
            return self.origin(scope or f, e, env if scope is None else None, depth + 1)
        if src[0] == 'name':
            try:
                lits = [lit for (lit, _f, _s, _c) in string.Formatter().parse(src[1])]
            except ValueError:
                return None
            parts = [const_txt(''.join(lits))]
            for i in src[2]:
                e, scope = self.ctor_arg(cx, call, i)
                parts.append(self.origin(scope or f, e, env if scope is None else None, depth + 1))
            t = join_txt(parts)
            return None if t is None else Txt(t.haz, ('a generated name %r' % src[1],) + t.notes if not t.haz else t.notes, t.deps)
        return None

    def _format_txt(self, f: Func, tmpl: str, args, kw, env, depth) -> Optional[Txt]:
        try:
            parsed = list(string.Formatter().parse(tmpl))
        except ValueError:
            return None
        parts = [const_txt(''.join(lit for (lit, _f, _s, _c) in parsed))]
        auto = 0
        for (_lit, field, spec, conv) in parsed:
            if field is None:
                continue
            if spec:
                return None
            if field == '':
                idx = auto
                auto += 1
            elif field.isdigit():
                idx = int(field)
            else:
                return None
            if idx >= len(args):
                return None
            parts.append(REPR_TXT if conv in ('r', 'a') else self.origin(f, args[idx], env, depth + 1))
        return join_txt(parts)

    def origin(self, f: Func, e, env=None, depth=0) -> Optional[Txt]:
        """Upper bound on the text `e` (an expression of f) renders as; None = not understood."""
        if depth > 12:
            return None
        if isinstance(e, ast.Constant):
            if isinstance(e.value, str):
                return const_txt(e.value)
            if isinstance(e.value, (int, bool)):
                return INT_TXT
            if e.value is None:
                return Txt()
            return None
        if isinstance(e, ast.Name):
            if env is not None and e.id in env:
                return env[e.id]
            if e.id in f.params():
                rebound = any(isinstance(n, ast.Name) and n.id == e.id and isinstance(n.ctx, ast.Store) for n in walk_self(f.node))
                if self._is_int_param(f, e.id) and not rebound:
                    return INT_TXT
                return None
            b = self._bindings(f, e.id, env, depth)
            if not b:
                v = self.p.fold(f.module, e, None, f)
                if isinstance(v, str):
                    return const_txt(v)
                if isinstance(v, int):
                    return INT_TXT
                return None
            if any(x is None for x in b):
                return None
            if all(x.is_int for x in b):
                return INT_TXT
            return join_txt(b)
        if isinstance(e, ast.BinOp):
            if isinstance(e.op, ast.Mod) and isinstance(e.left, ast.Constant) and isinstance(e.left.value, str):
                args = e.right.elts if isinstance(e.right, ast.Tuple) else [e.right]
                return join_txt([const_txt(e.left.value)] + [self.origin(f, a, env, depth + 1) for a in args])
            l, r = self.origin(f, e.left, env, depth + 1), self.origin(f, e.right, env, depth + 1)
            if l is None or r is None:
                return None
            if l.is_int and r.is_int and isinstance(e.op, (ast.Add, ast.Sub, ast.Mult, ast.FloorDiv, ast.Mod)):
                return INT_TXT
            if isinstance(e.op, (ast.Add, ast.Mult)):
                return l | r
            return None
        if isinstance(e, ast.IfExp):
            return join_txt([self.origin(f, e.body, env, depth + 1), self.origin(f, e.orelse, env, depth + 1)])
        if isinstance(e, ast.JoinedStr):
            parts = []
            for part in e.values:
                if isinstance(part, ast.Constant) and isinstance(part.value, str):
                    parts.append(const_txt(part.value))
                elif isinstance(part, ast.FormattedValue) and part.format_spec is None:
                    parts.append(REPR_TXT if part.conversion in (ord('r'), ord('a')) else self.origin(f, part.value, env, depth + 1))
                else:
                    return None
            return join_txt(parts)
        if isinstance(e, ast.Subscript):
            if isinstance(e.slice, ast.Slice):
                return self.origin(f, e.value, env, depth + 1)    # a substring
            v = e.value
            if isinstance(v, ast.Subscript) and isinstance(v.value, ast.Attribute) and self.node_attrs.get(v.value.attr, ('',))[0] == 'groups' \
                    and isinstance(e.slice, ast.Constant) and type(e.slice.value) is int:
                groups = self.node_attrs[v.value.attr][1]
                if 0 <= e.slice.value < len(groups):
                    return self.group_txt(groups[e.slice.value])
            return None
        if isinstance(e, ast.Attribute):
            if isinstance(e.value, ast.Attribute) and e.value.attr in self.node_attrs:
                t = self.node_attr_txt(e.value.attr, sub=e.attr)
                return t
            if isinstance(e.value, ast.Name):
                # a construct created here: its generated-name attribute
                b = []
                for n in walk_self(f.node):
                    if isinstance(n, (ast.Assign, ast.AnnAssign)) and n.value is not None:
                        for t_ in (n.targets if isinstance(n, ast.Assign) else [n.target]):
                            if e.value.id in _target_names(t_):
                                b.append(n.value if isinstance(t_, ast.Name) else None)
                cxs = [self.model.of(self.p.callee(f, v)) if isinstance(v, ast.Call) else None for v in b]
                if b and all(c is not None for c in cxs) and e.value.id not in f.params():
                    return join_txt([self.cx_attr_txt(c, e.attr, f, v, env, depth + 1) for c, v in zip(cxs, b)])
            if e.attr in self.node_attrs:
                t = self.node_attr_txt(e.attr)
                return self.seg_flat(t) if isinstance(t, Seg) else t
            return None
        if isinstance(e, ast.Call):
            fn = e.func
            if isinstance(fn, ast.Attribute) and fn.attr == 'format' and not e.keywords and not any(isinstance(a, ast.Starred) for a in e.args):
                tmpl = self.p.fold(f.module, fn.value, None, f)
                if isinstance(tmpl, str):
                    return self._format_txt(f, tmpl, e.args, {}, env, depth)
                return None
            t = self.p.resolve_callable(f, fn) if isinstance(fn, (ast.Name, ast.Attribute)) else None
            if t in ('builtins.len', 'builtins.int', 'builtins.hash', 'builtins.id', 'builtins.ord'):
                return INT_TXT
            if t == 'builtins.repr':
                return REPR_TXT
            if t == 'builtins.str' and len(e.args) == 1 and not e.keywords:
                return self.origin(f, e.args[0], env, depth + 1)
            if isinstance(t, Func) and not t.is_async:
                return self._helper_txt(f, e, t, env, depth)
            return None
        return None

    def _helper_txt(self, f: Func, call: ast.Call, t: Func, env, depth) -> Optional[Txt]:
        """Join over the return expressions of helper t with its parameters
        bound to the argument texts."""
        if any(isinstance(a, ast.Starred) for a in call.args) or any(k.arg is None for k in call.keywords):
            return None
        a = t.node.args
        if a.vararg or a.kwarg:
            return None
        names = [x.arg for x in a.posonlyargs + a.args]
        if t.cls is not None and isinstance(call.func, ast.Attribute) and names and names[0] in ('self', 'cls'):
            names = names[1:]
        if len(call.args) > len(names):
            return None
        env2: Dict[str, Optional[Txt]] = {}
        for nm, arg in zip(names, call.args):
            env2[nm] = self.origin(f, arg, env, depth + 1)
        for k in call.keywords:
            env2[k.arg] = self.origin(f, k.value, env, depth + 1)
        defaults = dict(zip(names[len(names) - len(a.defaults):], a.defaults)) if a.defaults else {}
        for nm in names:
            if nm not in env2:
                if nm not in defaults:
                    return None
                env2[nm] = self.origin(t, defaults[nm], None, depth + 1)
        rebound = {n.id for n in walk_self(t.node) if isinstance(n, ast.Name) and isinstance(n.ctx, ast.Store)}
        if rebound & set(env2):
            return None
        rets = [n.value for n in walk_self(t.node) if isinstance(n, ast.Return)]
        if not rets or any(r is None for r in rets):
            return None
        # a parameter whose text is not understood only matters if a return uses it
        parts = []
        for r in rets:
            used = {n.id for n in ast.walk(r) if isinstance(n, ast.Name)}
            if any(env2.get(u, 0) is None for u in used):
                return None
            parts.append(self.origin(t, r, {k: v for k, v in env2.items() if v is not None}, depth + 1))
        return join_txt(parts)


# ---------------------------------------------------------------------------
# concrete interpretation of small functions on probe inputs (R13 converters, R14 find())
# ---------------------------------------------------------------------------
# The functions under analysis are *read* (their syntax trees are walked); the only code that runs is a frozen whitelist
# of pure stdlib callables (int, float, uuid.UUID, datetime.strptime, the `re` engine, str/list/dict methods) applied to
# probe strings chosen by the rules and to constants written in the analysed source.

class CRaise(Exception):
    """An exception raised by the interpreted code (class given by qualified name)."""

    def __init__(self, qual: str, exc: Optional[BaseException] = None):
        super().__init__(qual)
        self.qual = qual
        self.exc = exc


class _CReturn(Exception):
    def __init__(self, value):
        self.value = value


class _CBreak(Exception):
    pass


class _CContinue(Exception):
    pass


class CObj:
    """Instance of a class of the analysed tree."""

    def __init__(self, cls: Class):
        self.cls = cls
        self.attrs: Dict[str, object] = {}

    def __repr__(self):
        return '<%s %r>' % (self.cls.name, self.attrs)


class FuncVal:
    def __init__(self, func: Func, recv=None):
        self.func = func
        self.recv = recv


class ClassVal:
    def __init__(self, cls: Class):
        self.cls = cls


class LambdaVal:
    def __init__(self, node: ast.Lambda, env, ctx):
        self.node, self.env, self.ctx = node, env, ctx


class ModelClass:
    """A class that is NOT part of the analysed tree -- what user code could
    define and hand to the framework: a name, the analysed-tree classes it
    derives from (none = a plain `class X:`), and its class attributes (plain
    values).  Fully specified: an attribute that is neither listed nor
    inherited from a listed base does not exist."""

    def __init__(self, name: str, bases: Tuple[str, ...] = (), attrs: Optional[Dict[str, object]] = None):
        self.name = name
        self.bases = tuple(bases)
        self.attrs = dict(attrs or {})

    def __repr__(self):
        return '<model class %s(%s)>' % (self.name, ', '.join(b.rsplit('.', 1)[-1] for b in self.bases))


class ModelObj:
    """Instance of a ModelClass (no instance attributes unless given)."""

    def __init__(self, cls: ModelClass, attrs: Optional[Dict[str, object]] = None):
        self.cls = cls
        self.attrs = dict(attrs or {})

    def __repr__(self):
        return '<instance of %s>' % self.cls.name


_OPAQUE = (CObj, FuncVal, ClassVal, LambdaVal, ModelClass, ModelObj)


def _externals() -> Dict[str, object]:
    import datetime
    import math
    import uuid
    ext: Dict[str, object] = {}
    for nm in ('int', 'float', 'str', 'len', 'bool', 'abs', 'min', 'max', 'list', 'tuple', 'dict', 'set', 'frozenset', 'sorted',
               'reversed', 'enumerate', 'range', 'zip', 'any', 'all', 'repr', 'ord', 'chr', 'sum', 'isinstance', 'bytes',
               'issubclass', 'getattr', 'hasattr', 'type', 'object',
               'ValueError', 'TypeError', 'KeyError', 'IndexError', 'AttributeError', 'OverflowError', 'Exception',
               'ArithmeticError', 'LookupError', 'AssertionError', 'UnicodeError', 'UnicodeDecodeError', 'UnicodeEncodeError',
               'BaseException', 'RuntimeError', 'NotImplementedError', 'StopIteration', 'ZeroDivisionError', 'divmod', 'round'):
        ext['builtins.' + nm] = getattr(__import__('builtins'), nm)
    for nm in ('isfinite', 'isnan', 'isinf', 'floor', 'ceil', 'trunc', 'inf', 'nan', 'copysign', 'fabs'):
        ext['math.' + nm] = getattr(math, nm)
    ext['uuid.UUID'] = uuid.UUID
    ext['datetime.datetime.strptime'] = datetime.datetime.strptime
    ext['datetime.datetime'] = datetime.datetime
    for nm in ('compile', 'match', 'fullmatch', 'search', 'sub', 'subn', 'split', 'findall', 'escape', 'error',
               'I', 'IGNORECASE', 'A', 'ASCII', 'X', 'VERBOSE', 'M', 'MULTILINE', 'S', 'DOTALL', 'U', 'UNICODE'):
        ext['re.' + nm] = getattr(re, nm)
    ext['string.hexdigits'] = string.hexdigits
    ext['string.digits'] = string.digits
    ext['string.ascii_letters'] = string.ascii_letters
    ext['string.whitespace'] = string.whitespace
    return ext


EXTERNALS = _externals()
_EXT_CALLABLE_IDS = {id(v) for v in EXTERNALS.values() if callable(v)}
_HIGHER_ORDER = {'builtins.filter', 'builtins.map'}
# bound methods of plain values that may be called: pure (or mutating only the interpreter's own containers)
_METHODS = {
    str: None,      # every str method is pure
    bytes: None,
    int: {'bit_length', 'to_bytes', 'is_integer', 'conjugate'},
    float: {'is_integer', 'hex', 'conjugate', 'as_integer_ratio'},
    list: {'append', 'extend', 'insert', 'pop', 'remove', 'copy', 'index', 'count', 'sort', 'reverse', 'clear'},
    tuple: {'index', 'count'},
    dict: {'get', 'items', 'keys', 'values', 'pop', 'setdefault', 'update', 'copy', 'clear', 'popitem'},
    set: {'add', 'discard', 'remove', 'copy', 'union', 'intersection', 'difference', 'issubset', 'issuperset', 'isdisjoint', 'update', 'clear', 'pop'},
    frozenset: {'union', 'intersection', 'difference', 'issubset', 'issuperset', 'isdisjoint', 'copy'},
    re.Pattern: {'match', 'fullmatch', 'search', 'sub', 'subn', 'split', 'findall'},
    re.Match: {'group', 'groups', 'groupdict', 'start', 'end', 'span'},
}
_PLAIN_ATTRS = {re.Pattern: {'pattern', 'flags', 'groups', 'groupindex'}, re.Match: {'string', 'pos', 'endpos', 'lastindex', 'lastgroup', 're'}}


def _exc_qual(exc: BaseException) -> str:
    t = type(exc)
    if t.__module__ == 'builtins':
        return 'builtins.' + t.__name__
    if t is re.error:
        return 're.error'
    return t.__module__ + '.' + t.__qualname__


class Concrete:
    """Interpreter for straight Python over concrete values.  Anything it has
    no model for is UnknownIdiom (never a verdict).  `attr_hook(obj, name)`
    supplies attributes of analysed-class instances that no interpreted code
    has set (NotImplemented = unknown value); `call_hook(fn_value, args,
    kwargs, node)` sees every call first (NotImplemented = not handled)."""

    def __init__(self, project: Project, where: str, attr_hook=None, call_hook=None, budget: int = 200000):
        self.p = project
        self.where = where
        self.attr_hook = attr_hook
        self.call_hook = call_hook
        self.budget = budget
        self.steps = 0
        self._const_memo: Dict[str, object] = {}
        self._const_active: Set[str] = set()
        self.returns: List[Tuple[Func, ast.Return, object]] = []   # executed `return` statements, in order
        self._handling: List[CRaise] = []

    # ------------------------------------------------------------ utilities
    def _unknown(self, what: str, node=None):
        raise UnknownIdiom('%s: %s%s' % (self.where, what, (' `%s`' % short(node, 70)) if node is not None else ''))

    def _tick(self):
        self.steps += 1
        if self.steps > self.budget:
            self._unknown('interpretation budget exhausted (loop?)')

    def _guard(self, fn, *a, **kw):
        """Run a whitelisted stdlib callable; its exceptions become exceptions of the interpreted program."""
        try:
            return fn(*a, **kw)
        except (UnknownIdiom, CRaise, _CReturn):
            raise
        except RecursionError:
            self._unknown('recursion limit inside a library call')
        except Exception as e:      # noqa: BLE001 - the interpreted program sees it
            raise CRaise(_exc_qual(e), e)

    def truth(self, v) -> bool:
        if v is UNK:
            self._unknown('truth value of an unknown value is needed')
        if isinstance(v, _OPAQUE):
            return True
        return bool(v)

    # ------------------------------------------------------------ names
    def qual_value(self, q: str, node=None):
        if q in EXTERNALS:
            return EXTERNALS[q]
        if q in _HIGHER_ORDER:
            return ('$ho', q)
        if q in self.p.funcs:
            return FuncVal(self.p.funcs[q])
        if q in self.p.classes:
            return ClassVal(self.p.classes[q])
        head, _, tail = q.rpartition('.')
        m = self.p.modules.get(head)
        if m is not None and tail in m.consts:
            if q in self._const_memo:
                return self._const_memo[q]
            if q in self._const_active:
                self._unknown('module constant %s is defined in terms of itself' % q)
            self._const_active.add(q)
            try:
                v = self.ev((m, None), m.consts[tail], {})
            finally:
                self._const_active.discard(q)
            self._const_memo[q] = v
            return v
        if head in self.p.classes:
            c, expr = self.p.lookup_class_attr(head, tail)
            if expr is not None:
                return self.ev((c.module, None), expr, {})
            meth = self.p.lookup_method(head, tail)
            if meth is not None:
                return FuncVal(meth)
        self._unknown('no model for the name %s' % q, node)

    # ------------------------------------------------------------ expressions
    def ev(self, ctx, e, env):
        self._tick()
        m = getattr(self, '_e_' + type(e).__name__, None)
        if m is None:
            self._unknown('expression form %s is not interpreted' % type(e).__name__, e)
        return m(ctx, e, env)

    def _e_Constant(self, ctx, e, env):
        return e.value

    def _e_Name(self, ctx, e, env):
        if e.id in env:
            return env[e.id]
        q = self.p.resolve_expr(ctx[0], e, ctx[1])
        if q is None:
            self._unknown('name %s is not bound here' % e.id, e)
        return self.qual_value(q, e)

    def _root(self, e):
        while isinstance(e, ast.Attribute):
            e = e.value
        return e

    def _e_Attribute(self, ctx, e, env):
        root = self._root(e)
        if isinstance(root, ast.Name) and root.id not in env:
            q = self.p.resolve_expr(ctx[0], e, ctx[1])
            if q is not None and self._known(q):
                return self.qual_value(q, e)
        return self.getattr(self.ev(ctx, e.value, env), e.attr, e)

    def _known(self, q: str) -> bool:
        if q in EXTERNALS or q in _HIGHER_ORDER or q in self.p.funcs or q in self.p.classes:
            return True
        head, _, tail = q.rpartition('.')
        m = self.p.modules.get(head)
        if m is not None and tail in m.consts:
            return True
        if head in self.p.classes:
            return self.p.lookup_class_attr(head, tail)[1] is not None or self.p.lookup_method(head, tail) is not None
        return False

    def getattr(self, v, name: str, node=None):
        if v is UNK:
            return UNK
        if isinstance(v, CObj):
            if name in v.attrs:
                return v.attrs[name]
            meth = self.p.lookup_method(v.cls.qual, name)
            if meth is not None:
                if meth.is_property():
                    return self.call_func(meth, [v], {})
                return FuncVal(meth, v)
            c, expr = self.p.lookup_class_attr(v.cls.qual, name)
            if expr is not None:
                return self.ev((c.module, None), expr, {})
            if self.attr_hook is not None:
                r = self.attr_hook(v, name)
                if r is not NotImplemented:
                    return r
            return UNK
        if isinstance(v, ClassVal):
            c, expr = self.p.lookup_class_attr(v.cls.qual, name)
            if expr is not None:
                return self.ev((c.module, None), expr, {})
            meth = self.p.lookup_method(v.cls.qual, name)
            if meth is not None:
                return FuncVal(meth)
            self._unknown('class attribute %s.%s' % (v.cls.name, name), node)
        if isinstance(v, (ModelClass, ModelObj)):
            found, val = self.lookup_attr(v, name, node)
            if not found:
                raise CRaise('builtins.AttributeError')
            return val
        for t, names in _METHODS.items():
            if isinstance(v, t) and not isinstance(v, bool):
                if (names is None and hasattr(t, name) and not name.startswith('_')) or (names is not None and name in names):
                    return ('$bound', v, name)
        for t, names in _PLAIN_ATTRS.items():
            if isinstance(v, t) and name in names:
                return getattr(v, name)
        self._unknown('attribute .%s of a %s value' % (name, type(v).__name__), node)

    def _e_UnaryOp(self, ctx, e, env):
        v = self.ev(ctx, e.operand, env)
        if isinstance(e.op, ast.Not):
            return not self.truth(v)
        if v is UNK or isinstance(v, _OPAQUE):
            self._unknown('arithmetic on an unknown value', e)
        if isinstance(e.op, ast.USub):
            return self._guard(lambda: -v)
        if isinstance(e.op, ast.UAdd):
            return self._guard(lambda: +v)
        if isinstance(e.op, ast.Invert):
            return self._guard(lambda: ~v)
        self._unknown('operator', e)

    def _e_BoolOp(self, ctx, e, env):
        v = None
        for x in e.values:
            v = self.ev(ctx, x, env)
            t = self.truth(v)
            if isinstance(e.op, ast.And) and not t:
                return v
            if isinstance(e.op, ast.Or) and t:
                return v
        return v

    _BIN = {ast.Add: lambda a, b: a + b, ast.Sub: lambda a, b: a - b, ast.Mult: lambda a, b: a * b, ast.Div: lambda a, b: a / b,
            ast.FloorDiv: lambda a, b: a // b, ast.Mod: lambda a, b: a % b, ast.BitOr: lambda a, b: a | b,
            ast.BitAnd: lambda a, b: a & b, ast.BitXor: lambda a, b: a ^ b}

    def _plain(self, v, node):
        if v is UNK or isinstance(v, _OPAQUE) or (isinstance(v, tuple) and v and v[0] in ('$bound', '$ho')):
            self._unknown('operator applied to a value that is not plain data', node)
        return v

    def binop(self, op, a, b, node):
        self._plain(a, node)
        self._plain(b, node)
        fn = self._BIN.get(type(op))
        if fn is None:
            self._unknown('operator %s' % type(op).__name__, node)
        if isinstance(op, ast.Mult):
            for x, y in ((a, b), (b, a)):
                if isinstance(x, (str, bytes, list, tuple)) and isinstance(y, int) and len(x) * max(y, 0) > 100000:
                    self._unknown('sequence repetition too large', node)
        return self._guard(fn, a, b)

    def _e_BinOp(self, ctx, e, env):
        return self.binop(e.op, self.ev(ctx, e.left, env), self.ev(ctx, e.right, env), e)

    def _e_Compare(self, ctx, e, env):
        left = self.ev(ctx, e.left, env)
        for op, rexp in zip(e.ops, e.comparators):
            right = self.ev(ctx, rexp, env)
            if isinstance(op, (ast.Is, ast.IsNot)):
                if left is UNK or right is UNK:
                    self._unknown('identity test on an unknown value', e)
                same = (left is right) or (isinstance(left, ClassVal) and isinstance(right, ClassVal) and left.cls is right.cls)
                r = same if isinstance(op, ast.Is) else not same
                if not (left is None or right is None or isinstance(left, bool) or isinstance(right, bool)
                        or isinstance(left, (CObj, ClassVal, ModelClass, ModelObj)) or isinstance(right, (CObj, ClassVal, ModelClass, ModelObj))):
                    self._unknown('identity test between two data values (interning is an implementation detail)', e)
            else:
                self._plain(left, e)
                self._plain(right, e)
                fn = {ast.Eq: lambda a, b: a == b, ast.NotEq: lambda a, b: a != b, ast.Lt: lambda a, b: a < b,
                      ast.LtE: lambda a, b: a <= b, ast.Gt: lambda a, b: a > b, ast.GtE: lambda a, b: a >= b,
                      ast.In: lambda a, b: a in b, ast.NotIn: lambda a, b: a not in b}[type(op)]
                r = self._guard(fn, left, right)
            if not self.truth(r):
                return r
            left = right
        return r

    def _e_IfExp(self, ctx, e, env):
        return self.ev(ctx, e.body if self.truth(self.ev(ctx, e.test, env)) else e.orelse, env)

    def _elts(self, ctx, elts, env) -> list:
        out = []
        for x in elts:
            if isinstance(x, ast.Starred):
                out.extend(self.iterate(self.ev(ctx, x.value, env), x))
            else:
                out.append(self.ev(ctx, x, env))
        return out

    def _e_Tuple(self, ctx, e, env):
        return tuple(self._elts(ctx, e.elts, env))

    def _e_List(self, ctx, e, env):
        return self._elts(ctx, e.elts, env)

    def _e_Set(self, ctx, e, env):
        return self._guard(set, self._elts(ctx, e.elts, env))

    def _e_Dict(self, ctx, e, env):
        out = {}
        for k, v in zip(e.keys, e.values):
            if k is None:
                d = self.ev(ctx, v, env)
                if not isinstance(d, dict):
                    self._unknown('** of a non-dict', e)
                out.update(d)
            else:
                kk = self._plain(self.ev(ctx, k, env), e)
                out[kk] = self.ev(ctx, v, env)
        return out

    def _e_JoinedStr(self, ctx, e, env):
        parts = []
        for x in e.values:
            if isinstance(x, ast.Constant):
                parts.append(str(x.value))
            else:
                v = self._plain(self.ev(ctx, x.value, env), e)
                spec = self._e_JoinedStr(ctx, x.format_spec, env) if x.format_spec is not None else ''
                if x.conversion == ord('r'):
                    v = repr(v)
                elif x.conversion == ord('s'):
                    v = str(v)
                elif x.conversion == ord('a'):
                    v = ascii(v)
                parts.append(self._guard(format, v, spec))
        return ''.join(parts)

    def _e_Subscript(self, ctx, e, env):
        v = self._plain(self.ev(ctx, e.value, env), e)
        if isinstance(e.slice, ast.Slice):
            lo, hi, st = [None if x is None else self._plain(self.ev(ctx, x, env), e) for x in (e.slice.lower, e.slice.upper, e.slice.step)]
            return self._guard(lambda: v[lo:hi:st])
        k = self._plain(self.ev(ctx, e.slice, env), e)
        return self._guard(lambda: v[k])

    def _e_Lambda(self, ctx, e, env):
        return LambdaVal(e, env, ctx)

    def iterate(self, v, node) -> list:
        if isinstance(v, (str, bytes, list, tuple, dict, set, frozenset, range)):
            out = list(v)
        elif type(v).__name__ in ('enumerate', 'zip', 'reversed', 'dict_keys', 'dict_values', 'dict_items', 'list_iterator',
                                  'list_reverseiterator', 'map', 'filter'):
            out = list(v)
        else:
            self._unknown('iteration over a %s value' % type(v).__name__, node)
        if len(out) > 10000:
            self._unknown('iteration too long', node)
        return out

    def _comp(self, ctx, e, env, emit):
        def rec(i, env2):
            if i == len(e.generators):
                emit(env2)
                return
            g = e.generators[i]
            if g.is_async:
                self._unknown('async comprehension', e)
            for item in self.iterate(self.ev(ctx, g.iter, env2), g.iter):
                env3 = dict(env2)
                self.bind(ctx, g.target, item, env3)
                if all(self.truth(self.ev(ctx, c, env3)) for c in g.ifs):
                    rec(i + 1, env3)
        rec(0, dict(env))

    def _e_ListComp(self, ctx, e, env):
        out = []
        self._comp(ctx, e, env, lambda en: out.append(self.ev(ctx, e.elt, en)))
        return out

    _e_GeneratorExp = _e_ListComp

    def _e_SetComp(self, ctx, e, env):
        return self._guard(set, self._e_ListComp(ctx, e, env))

    def _e_DictComp(self, ctx, e, env):
        out = {}

        def emit(en):
            out[self._plain(self.ev(ctx, e.key, en), e)] = self.ev(ctx, e.value, en)
        self._comp(ctx, e, env, emit)
        return out

    # ------------------------------------------------------------ calls
    def _e_Call(self, ctx, e, env):
        fn = self.ev(ctx, e.func, env)
        args = self._elts(ctx, e.args, env)
        kwargs = {}
        for k in e.keywords:
            if k.arg is None:
                d = self.ev(ctx, k.value, env)
                if not isinstance(d, dict):
                    self._unknown('** of a non-dict', e)
                kwargs.update(d)
            else:
                kwargs[k.arg] = self.ev(ctx, k.value, env)
        return self.call(fn, args, kwargs, e)

    def call(self, fn, args, kwargs, node=None):
        self._tick()
        if self.call_hook is not None:
            r = self.call_hook(fn, args, kwargs, node)
            if r is not NotImplemented:
                return r
        if fn is getattr or fn is hasattr:
            return self._b_getattr(fn, args, kwargs, node)
        if fn is type and len(args) == 1 and not kwargs:
            return self._b_type(args[0], node)
        if (fn is isinstance or fn is issubclass) and len(args) == 2 and not kwargs and self._about_classes(args):
            return self._b_isinstance(fn, args[0], args[1], node)
        if isinstance(fn, FuncVal):
            return self.call_func(fn.func, ([fn.recv] if fn.recv is not None else []) + list(args), kwargs)
        if isinstance(fn, ClassVal):
            return self.instantiate(fn.cls, args, kwargs)
        if isinstance(fn, ModelClass):
            if args or kwargs:
                self._unknown('constructor arguments of the model class %s' % fn.name, node)
            return ModelObj(fn)
        if isinstance(fn, LambdaVal):
            return self.ev(fn.ctx, fn.node.body, self._bind_args(fn.node.args, fn.ctx, args, kwargs, fn.env, fn.node))
        if isinstance(fn, tuple) and fn and fn[0] == '$ho':
            if kwargs or len(args) != 2:
                self._unknown('call of %s' % fn[1], node)
            items = self.iterate(args[1], node)
            if fn[1] == 'builtins.filter':
                if args[0] is None:
                    return [x for x in items if self.truth(x)]
                return [x for x in items if self.truth(self.call(args[0], [x], {}, node))]
            return [self.call(args[0], [x], {}, node) for x in items]
        if isinstance(fn, tuple) and fn and fn[0] == '$bound':
            _, recv, name = fn
            for a in list(args) + list(kwargs.values()):
                self._data(a, node)
            if isinstance(recv, str) and name in ('format', 'format_map'):
                pass
            if isinstance(recv, re.Pattern) and name in ('sub', 'subn') and args and not isinstance(args[0], (str, bytes)):
                self._unknown('callable replacement in %s' % name, node)
            if isinstance(recv, list) and name == 'sort' and kwargs.get('key') is not None:
                self._unknown('sort with a key', node)
            return self._guard(getattr(recv, name), *args, **kwargs)
        if fn is UNK:
            self._unknown('call of an unknown value', node)
        if callable(fn) and id(fn) in _EXT_CALLABLE_IDS:
            for a in list(args) + list(kwargs.values()):
                self._data(a, node)
            if fn in (re.sub, re.subn) and len(args) >= 2 and not isinstance(args[1], (str, bytes)):
                self._unknown('callable replacement in re.sub', node)
            if fn in (sorted, min, max) and kwargs.get('key') is not None:
                self._unknown('key= function', node)
            if fn is isinstance and not (len(args) == 2 and (isinstance(args[1], type) or (isinstance(args[1], tuple) and all(isinstance(t, type) for t in args[1])))):
                self._unknown('isinstance against a class of the analysed tree', node)
            return self._guard(fn, *args, **kwargs)
        self._unknown('call of a value that is not modelled', node)

    # ------------------------------------------------------------ getattr / type / isinstance over tree and model classes
    def _tree_bases_known(self, qual: str) -> bool:
        """Every class in the MRO of the analysed-tree class `qual` is itself in
        the analysed tree (so an attribute none of them defines does not exist,
        dunder/object attributes aside)."""
        for q in self.p.mro(qual):
            c = self.p.classes.get(q)
            if c is None:
                return False
            for b in c.node.bases:
                bq = self.p.resolve_expr(c.module, b)
                if bq != 'builtins.object' and bq not in self.p.classes:
                    return False
        return True

    def _tree_class_attr(self, qual: str, name: str):
        c, expr = self.p.lookup_class_attr(qual, name)
        if expr is not None:
            return True, self.ev((c.module, None), expr, {})
        meth = self.p.lookup_method(qual, name)
        if meth is not None:
            return True, FuncVal(meth)
        return False, None

    def lookup_attr(self, o, name: str, node=None) -> Tuple[bool, object]:
        """(found, value) for the attribute `name` of a class / instance value,
        the way getattr() looks it up (instance, then class, then bases)."""
        if name.startswith('__'):
            self._unknown('special attribute %s' % name, node)
        if isinstance(o, ModelObj):
            if name in o.attrs:
                return True, o.attrs[name]
            found, val = self.lookup_attr(o.cls, name, node)
            if found and isinstance(val, FuncVal) and val.recv is None:
                val = FuncVal(val.func, o)
            return found, val
        if isinstance(o, ModelClass):
            if name in o.attrs:
                return True, o.attrs[name]
            for b in o.bases:
                found, val = self._tree_class_attr(b, name)
                if found:
                    return True, val
                if not self._tree_bases_known(b):
                    self._unknown('attribute %s may come from a base of %s outside the analysed tree' % (name, b), node)
            return False, None
        if isinstance(o, ClassVal):
            found, val = self._tree_class_attr(o.cls.qual, name)
            if found:
                return True, val
            if not self._tree_bases_known(o.cls.qual):
                self._unknown('attribute %s may come from a base of %s outside the analysed tree' % (name, o.cls.qual), node)
            return False, None
        if isinstance(o, CObj):
            v = self.getattr(o, name, node)
            return True, v     # UNK when no interpreted code has set it: the caller must not branch on it
        self._unknown('getattr() on a %s value' % type(o).__name__, node)

    def _b_getattr(self, fn, args, kwargs, node):
        if kwargs or not (2 <= len(args) <= (3 if fn is getattr else 2)) or not isinstance(args[1], str):
            self._unknown('call of %s' % fn.__name__, node)
        found, val = self.lookup_attr(args[0], args[1], node)
        if fn is hasattr:
            if found and val is UNK:
                self._unknown('hasattr() of an attribute no interpreted code has set', node)
            return found
        if found:
            return val
        if len(args) == 3:
            return args[2]
        raise CRaise('builtins.AttributeError')

    def _b_type(self, v, node):
        if isinstance(v, CObj):
            return ClassVal(v.cls)
        if isinstance(v, ModelObj):
            return v.cls
        if v is UNK or isinstance(v, _OPAQUE) or (isinstance(v, tuple) and v and v[0] in ('$bound', '$ho', '$exc')):
            self._unknown('type() of a class / function value (metaclasses are not modelled)', node)
        return type(v)

    @staticmethod
    def _about_classes(args) -> bool:
        def opaque(x):
            return isinstance(x, (CObj, ClassVal, ModelClass, ModelObj))
        spec = args[1] if isinstance(args[1], tuple) else (args[1],)
        return opaque(args[0]) or any(opaque(d) for d in spec)

    def _is_subclass(self, c, d, node) -> bool:
        """c, d: ClassVal | ModelClass | Python type."""
        if d is object:
            return True
        if isinstance(c, type):
            return issubclass(c, d) if isinstance(d, type) else False
        if isinstance(d, type):
            if d is type:
                self._unknown('metaclass test', node)
            quals = [c.cls.qual] if isinstance(c, ClassVal) else list(c.bases)
            for q in quals:
                r = self.p.is_subclass(q, '%s.%s' % (d.__module__, d.__name__))
                if r is None:
                    self._unknown('whether %s derives from %s is not known' % (q, d.__name__), node)
                if r:
                    return True
            return False
        if isinstance(c, ModelClass):
            if c is d:
                return True
            if isinstance(d, ModelClass):
                return False
            quals = list(c.bases)
        else:
            if isinstance(d, ModelClass):
                return False
            quals = [c.cls.qual]
        for q in quals:
            r = self.p.is_subclass(q, d.cls.qual)
            if r is None:
                self._unknown('whether %s derives from %s is not known' % (q, d.cls.qual), node)
            if r:
                return True
        return False

    def _b_isinstance(self, fn, v, spec, node) -> bool:
        specs = spec if isinstance(spec, tuple) else (spec,)
        for d in specs:
            if not isinstance(d, (ClassVal, ModelClass, type)):
                self._unknown('%s() against a value that is not a class' % fn.__name__, node)
        is_class = isinstance(v, (ClassVal, ModelClass, type))
        if fn is issubclass:
            if not is_class:
                raise CRaise('builtins.TypeError')
            return any(self._is_subclass(v, d, node) for d in specs)
        if v is UNK or isinstance(v, (FuncVal, LambdaVal)) or (isinstance(v, tuple) and v and v[0] in ('$bound', '$ho', '$exc')):
            self._unknown('isinstance() of a function / unknown value', node)
        out = False
        for d in specs:
            if d is object:
                out = True
            elif d is type:
                out = out or is_class
            elif is_class:
                # a class object is an instance of its metaclass only
                if isinstance(d, ClassVal) and self.p.is_subclass(d.cls.qual, 'builtins.type') is not False:
                    self._unknown('isinstance(<class>, <possible metaclass>)', node)
            elif isinstance(v, CObj):
                out = out or self._is_subclass(ClassVal(v.cls), d, node)
            elif isinstance(v, ModelObj):
                out = out or self._is_subclass(v.cls, d, node)
            else:
                out = out or self._is_subclass(type(v), d, node)
        return out

    def _data(self, v, node):
        """Arguments handed to library code must be plain data (nothing that could call back)."""
        if v is UNK or isinstance(v, _OPAQUE):
            self._unknown('a non-data value is passed to library code', node)
        if isinstance(v, tuple) and v and v[0] in ('$bound', '$ho'):
            self._unknown('a bound method is passed to library code', node)
        if isinstance(v, (list, tuple, set, frozenset)):
            for x in v:
                self._data(x, node)
        elif isinstance(v, dict):
            for k, x in v.items():
                self._data(x, node)

    def instantiate(self, cls: Class, args, kwargs):
        if self.p.is_subclass(cls.qual, 'builtins.BaseException'):
            raise_q = cls.qual
            return ('$exc', raise_q, args)
        obj = CObj(cls)
        init = self.p.lookup_method(cls.qual, '__init__')
        if init is not None:
            self.call_func(init, [obj] + list(args), kwargs)
        elif args or kwargs:
            self._unknown('%s() takes arguments but has no __init__ in the analysed tree' % cls.name)
        return obj

    def _bind_args(self, a: ast.arguments, ctx, args, kwargs, base_env, node):
        if a.vararg or a.kwarg:
            self._unknown('*args/**kwargs parameters', node)
        env = dict(base_env)
        pos = [x.arg for x in a.posonlyargs + a.args]
        if len(args) > len(pos):
            raise CRaise('builtins.TypeError')
        for nm, v in zip(pos, args):
            env[nm] = v
        kwonly = [x.arg for x in a.kwonlyargs]
        for k, v in kwargs.items():
            if k in env or (k not in pos and k not in kwonly) or k in [x.arg for x in a.posonlyargs]:
                raise CRaise('builtins.TypeError')
            env[k] = v
        defaults = dict(zip(pos[len(pos) - len(a.defaults):], a.defaults))
        defaults.update({x.arg: d for x, d in zip(a.kwonlyargs, a.kw_defaults) if d is not None})
        for nm in pos + kwonly:
            if nm not in env:
                if nm not in defaults:
                    raise CRaise('builtins.TypeError')
                env[nm] = self.ev((ctx[0], None), defaults[nm], {})
        return env

    def call_func(self, f: Func, args, kwargs):
        self._tick()
        if f.is_async or any(isinstance(n, (ast.Yield, ast.YieldFrom)) for n in walk_self(f.node)):
            self._unknown('%s is a coroutine/generator' % f.qual)
        keep = {'staticmethod', 'classmethod', 'property', 'abc.abstractmethod', 'abstractmethod', 'overload', 'typing.overload'}
        if any(d not in keep for d in f.decorators):
            self._unknown('%s is decorated (%s)' % (f.qual, ', '.join(f.decorators)))
        if 'staticmethod' in f.decorators and f.cls is not None and args and isinstance(args[0], CObj):
            args = args[1:]
        ctx = (f.module, f)
        env = self._bind_args(f.node.args, ctx, args, kwargs, {}, f.node)
        try:
            self.block(ctx, f.node.body, env)
        except _CReturn as r:
            return r.value
        return None

    # ------------------------------------------------------------ statements
    def bind(self, ctx, target, value, env):
        if isinstance(target, ast.Name):
            env[target.id] = value
        elif isinstance(target, (ast.Tuple, ast.List)):
            items = self.iterate(value, target)
            if any(isinstance(t, ast.Starred) for t in target.elts):
                self._unknown('starred assignment target', target)
            if len(items) != len(target.elts):
                raise CRaise('builtins.ValueError')
            for t, v in zip(target.elts, items):
                self.bind(ctx, t, v, env)
        elif isinstance(target, ast.Attribute):
            o = self.ev(ctx, target.value, env)
            if not isinstance(o, CObj):
                self._unknown('attribute store on a %s value' % type(o).__name__, target)
            o.attrs[target.attr] = value
        elif isinstance(target, ast.Subscript) and not isinstance(target.slice, ast.Slice):
            o = self.ev(ctx, target.value, env)
            if not isinstance(o, (list, dict)):
                self._unknown('item store on a %s value' % type(o).__name__, target)
            k = self._plain(self.ev(ctx, target.slice, env), target)
            self._guard(o.__setitem__, k, value)
        else:
            self._unknown('assignment target', target)

    def block(self, ctx, stmts, env):
        for s in stmts:
            self.stmt(ctx, s, env)

    def stmt(self, ctx, s, env):
        self._tick()
        if isinstance(s, ast.Expr):
            self.ev(ctx, s.value, env)
        elif isinstance(s, ast.Assign):
            v = self.ev(ctx, s.value, env)
            for t in s.targets:
                self.bind(ctx, t, v, env)
        elif isinstance(s, ast.AnnAssign):
            if s.value is not None:
                self.bind(ctx, s.target, self.ev(ctx, s.value, env), env)
        elif isinstance(s, ast.AugAssign):
            cur = self.ev(ctx, ast.copy_location(_as_load(s.target), s.target), env)
            self.bind(ctx, s.target, self.binop(s.op, cur, self.ev(ctx, s.value, env), s), env)
        elif isinstance(s, ast.Return):
            v = self.ev(ctx, s.value, env) if s.value is not None else None
            if ctx[1] is not None:
                self.returns.append((ctx[1], s, v))
            raise _CReturn(v)
        elif isinstance(s, ast.If):
            self.block(ctx, s.body if self.truth(self.ev(ctx, s.test, env)) else s.orelse, env)
        elif isinstance(s, ast.Pass):
            pass
        elif isinstance(s, ast.Assert):
            if not self.truth(self.ev(ctx, s.test, env)):
                raise CRaise('builtins.AssertionError')
        elif isinstance(s, ast.Raise):
            self._raise(ctx, s, env)
        elif isinstance(s, ast.Try):
            self._try(ctx, s, env)
        elif isinstance(s, ast.For):
            broke = False
            for item in self.iterate(self.ev(ctx, s.iter, env), s.iter):
                self.bind(ctx, s.target, item, env)
                try:
                    self.block(ctx, s.body, env)
                except _CBreak:
                    broke = True
                    break
                except _CContinue:
                    continue
            if not broke:
                self.block(ctx, s.orelse, env)
        elif isinstance(s, ast.While):
            broke = False
            while self.truth(self.ev(ctx, s.test, env)):
                self._tick()
                try:
                    self.block(ctx, s.body, env)
                except _CBreak:
                    broke = True
                    break
                except _CContinue:
                    continue
            if not broke:
                self.block(ctx, s.orelse, env)
        elif isinstance(s, ast.Break):
            raise _CBreak()
        elif isinstance(s, ast.Continue):
            raise _CContinue()
        elif isinstance(s, (ast.Import, ast.ImportFrom)):
            self._unknown('import inside a function', s)
        else:
            self._unknown('statement form %s is not interpreted' % type(s).__name__, s)

    def _raise(self, ctx, s: ast.Raise, env):
        if s.exc is None:
            if not self._handling:
                raise CRaise('builtins.RuntimeError')
            raise self._handling[-1]
        v = self.ev(ctx, s.exc, env)
        if isinstance(v, ClassVal):
            v = self.instantiate(v.cls, [], {})
        if isinstance(v, tuple) and v and v[0] == '$exc':
            raise CRaise(v[1])
        if isinstance(v, CRaise):
            raise v
        if isinstance(v, type) and issubclass(v, BaseException):
            v = self._guard(v)
        if isinstance(v, BaseException):
            raise CRaise(_exc_qual(v), v)
        self._unknown('raise of a value that is not an exception', s)

    def _catches(self, ctx, h: ast.ExceptHandler, exc: CRaise) -> bool:
        if h.type is None:
            return True
        for t in (h.type.elts if isinstance(h.type, ast.Tuple) else [h.type]):
            q = self.p.resolve_expr(ctx[0], t, ctx[1])
            if q is None:
                self._unknown('except clause names something that does not resolve', t)
            r = self.p.is_subclass(exc.qual, q)
            if r is None:
                if exc.exc is not None and q in EXTERNALS and isinstance(EXTERNALS[q], type):
                    r = isinstance(exc.exc, EXTERNALS[q])
                else:
                    self._unknown('cannot decide whether %s is caught by' % exc.qual, t)
            if r:
                return True
        return False

    def _try(self, ctx, s: ast.Try, env):
        try:
            try:
                self.block(ctx, s.body, env)
            except CRaise as exc:
                for h in s.handlers:
                    if self._catches(ctx, h, exc):
                        if h.name:
                            env[h.name] = exc
                        self._handling.append(exc)
                        try:
                            self.block(ctx, h.body, env)
                        finally:
                            self._handling.pop()
                        break
                else:
                    raise
            else:
                self.block(ctx, s.orelse, env)
        finally:
            if s.finalbody:
                self.block(ctx, s.finalbody, env)


def _as_load(t):
    import copy
    t2 = copy.copy(t)
    t2.ctx = ast.Load()
    return t2


def originating_return(returns) -> Optional[Tuple[Func, ast.Return]]:
    """Of the executed `return`s (in order), the one that produced the final
    value: the last one, followed back through `return <call>` delegations to
    the callee's own return of the same value."""
    if not returns:
        return None
    i = len(returns) - 1
    while i > 0 and isinstance(returns[i][1].value, ast.Call) and returns[i - 1][2] is returns[i][2] and returns[i - 1][0] is not returns[i][0]:
        i -= 1
    return returns[i][0], returns[i][1]


# ---- what the built-in converters are documented to accept ----------------------------------------------------------
# key = identifier in falcon.routing.converters.BUILTIN (the name used in URI templates, public contract).
# Each oracle: (reason | None, value).  The conversion primitive (int/float/strptime/uuid.UUID) decides; on top of it come
# the documented options and the ONE screening that is part of the converters' tested behaviour:

SCREEN_WS = 'padded with whitespace'   # int()/float() would accept ' 1'; the converters reject it (tests/test_uri_converters.py)


def _o_int(opts, s):
    try:
        v = int(s)
    except ValueError:
        return 'int() rejects it', None
    if s.strip() != s:
        return SCREEN_WS, None
    nd = opts.get('num_digits')
    if nd is not None and len(s) != nd:
        return 'num_digits', None
    if opts.get('min') is not None and v < opts['min']:
        return 'min', None
    if opts.get('max') is not None and v > opts['max']:
        return 'max', None
    return None, v


def _o_float(opts, s):
    import math
    try:
        v = float(s)
    except ValueError:
        return 'float() rejects it', None
    if s.strip() != s:
        return SCREEN_WS, None
    if opts.get('finite', True) and not math.isfinite(v):
        return 'finite', None
    if opts.get('min') is not None and v < opts['min']:
        return 'min', None
    if opts.get('max') is not None and v > opts['max']:
        return 'max', None
    return None, v


def _o_dt(opts, s):
    import datetime
    try:
        return None, datetime.datetime.strptime(s, opts.get('format_string', '%Y-%m-%dT%H:%M:%S%z'))
    except ValueError:
        return 'strptime() rejects it', None


def _o_uuid(opts, s):
    import uuid
    try:
        return None, uuid.UUID(s)
    except ValueError:
        return 'uuid.UUID() rejects it', None


def _o_path(opts, segs):
    return None, '/'.join(segs)


_U = '6f9619ff-8b86-d011-b42d-00c04fc964ff'
CONVERTER_ORACLES = {
    'int': {
        'oracle': _o_int,
        'configs': [{}, {'num_digits': 1}, {'num_digits': 3}, {'min': 0}, {'max': 0}, {'min': -5, 'max': 5}, {'num_digits': 2, 'min': 10, 'max': 20}],
        'probes': ['0', '7', '12', '15', '123', '007', '+5', '-3', '-12', '+12', '1_000', '1_0', '１２', '١٢', ' 1', '1 ', '\t2', '1\n',
                   ' 12', '', ' ', 'abc', '1.5', '0x10', '1e3', '--1', '+', '12a', '1' * 20, '9' * 70, '-' + '9' * 30],
        'numeric': True,
    },
    'float': {
        'oracle': _o_float,
        'configs': [{}, {'finite': False}, {'min': 0.0}, {'max': 0.0}, {'min': -1.5, 'max': 1.5, 'finite': False}],
        'probes': ['0', '1', '1.5', '-2.25', '+3.', '.5', '1e3', '1E-2', '-1e-3', '1_0.5', 'inf', '-inf', '+inf', 'nan', 'Infinity', 'NaN', '1e400',
                   ' 1.5', '1.5 ', '\n1', '', 'abc', '1,5', '0x1p3', '١.٥', '1' * 40, '0.' + '3' * 40, '-0.0', '1e', '.'],
        'numeric': True,
    },
    'dt': {
        'oracle': _o_dt,
        'configs': [{}, {'format_string': '%Y-%m-%d'}, {'format_string': '%Y-%m-%dT%H:%M:%SZ'}, {'format_string': '%d.%m.%Y %H:%M'}],
        'probes': ['2017-07-21T16:09:08Z', '2017-07-21T16:09:08+0200', '2017-07-21T16:09:08+02:00', '2017-07-21T16:09:08-0330',
                   '2017-07-21', '2017-7-1', '17-07-21', '2017-7-1T1:2:3Z', '2017-07-21T16:09:08', '', 'garbage', '2017-02-30T00:00:00Z',
                   ' 2017-07-21T16:09:08Z', '2017-07-21T16:09:08Z ', '2017-07-21t16:09:08z', '2017-13-01', '0001-01-01', '9999-12-31',
                   '21.07.2017 16:09', '1.7.2017 6:9', '21.07.2017  16:09', '21.07.17 16:09', '31.02.2017 00:00'],
        'numeric': False,
    },
    'uuid': {
        'oracle': _o_uuid,
        'configs': [{}],
        'probes': [_U, _U.upper(), '6F9619ff-8b86-D011-b42d-00C04fc964FF', _U.replace('-', ''), _U.replace('-', '').upper(), '{' + _U + '}',
                   '{' + _U.upper() + '}', 'urn:uuid:' + _U, 'urn:uuid:' + _U.upper(), 'URN:UUID:' + _U, '6f9619ff8b86-d011b42d-00c04fc964ff',
                   '00000000-0000-0000-0000-000000000000', 'ffffffff-ffff-ffff-ffff-ffffffffffff', 'FFFFFFFFFFFFFFFFFFFFFFFFFFFFFFFF',
                   _U[:-1], _U + '0', _U.replace('6', 'g'), '', ' ' + _U, _U + ' ', _U + '\n', 'not-a-uuid', '12345'],
        'numeric': False,
    },
    'path': {
        'oracle': _o_path,
        'configs': [{}],
        'probes': [[], [''], ['a'], ['a', 'b'], ['a', '', 'b'], ['', ''], ['a', ''], ['', 'a'], ['a b'], ['%2F', '.'], ['..', 'x'], ['A', 'b.json']],
        'numeric': False,
    },
}

FIND_PROBES = ['/', '', '/a', '/a/b', '/a/b/', '/a//b', '//a', '///', '/a///b//', 'a/b', '/A/b', '/a b/c', '/a/./b', '/a/../b', '/a%2Fb',
               '/a/b?x=1', '/ä/ü', '/a\\b', '/a/b ', ' /a', '/a;p/b', '/.', '/a.json', '/a/b#f', '/a\tb', '/a/\n', '/a/b//', '//', '/a/+/b']


def same_value(a, b) -> bool:
    return type(a) is type(b) and repr(a) == repr(b)


# ---- provenance of the segment list (witness text for R14) -----------------------------------------------------------

def path_provenance(project: Project, f: Func, param: str):
    """c15's Provenance, taught the two shapes a path normalisation is usually
    written in that its tables do not list: methods of a module-level compiled
    pattern (`_RX.sub(repl, uri)`, `_RX.split(uri)`) and a comprehension /
    filter over the split result."""
    from .c15_helpers import Origin, Provenance

    class PathProvenance(Provenance):
        def classify(self, e, nid):
            if isinstance(e, (ast.ListComp, ast.GeneratorExp)) and len(e.generators) == 1:
                src = self.classify(e.generators[0].iter, nid)
                if src.derived:
                    return src.step('rewrite', e, 'filters / re-maps the segments')
                return Origin()
            return super().classify(e, nid)

        def _call(self, c, nid):
            fn = c.func
            if isinstance(fn, ast.Attribute) and isinstance(fn.value, ast.Name) and fn.attr in ('sub', 'subn', 'split', 'findall'):
                v = self.f.module.consts.get(fn.value.id)
                if isinstance(v, ast.Call) and self.p.resolve_expr(self.f.module, v.func) == 're.compile':
                    inner = Origin()
                    for a in c.args:
                        inner = inner.merge(self.classify(a, nid))
                    if inner.derived:
                        return inner.step('rewrite', c, 'regular-expression %s' % fn.attr)
                    return Origin()
            if isinstance(fn, ast.Name) and fn.id in ('list', 'tuple', 'filter') and c.args:
                q = self.p.resolve_expr(self.f.module, fn, self.f)
                if q in ('builtins.list', 'builtins.tuple') and len(c.args) == 1 and not c.keywords:
                    return self.classify(c.args[0], nid)
                if q == 'builtins.filter' and len(c.args) == 2:
                    src = self.classify(c.args[1], nid)
                    return src.step('rewrite', c, 'filters the segments') if src.derived else Origin()
            return super()._call(c, nid)

    return PathProvenance(project, f, param)


# ---------------------------------------------------------------------------
# Function views: a function as its statements read once local aliases of attribute chains and calls of plain helpers
# are written out (used by C01 and C02; nothing here knows about a property)
# ---------------------------------------------------------------------------

def _plain_helper(p, f: Func, call: ast.Call, mode: str) -> Optional[Func]:
    """The callee of `call` when it is a helper whose body can stand in place of the call: a module-level function of
    f's own module, a method of f's own class called as `self.h(...)`, or a nested def of f / of the function f itself
    is nested in; synchronous, undecorated, plain positional-or-keyword parameters, no nested defs, no
    yield/await/global/nonlocal.  mode 'stmt' (the call is a statement): it may only return by falling off its end
    (or a bare trailing `return`); 'tail' (operand of `return h(...)`): its own returns become the caller's; 'value'
    (the call is part of an expression): its only `return` is its last statement and hands back a value."""
    if any(isinstance(a, ast.Starred) for a in call.args) or any(k.arg is None for k in call.keywords):
        return None
    origin = getattr(f, 'origin', f)
    h = p.callee(f, call)
    if not isinstance(h, Func) or h is f or h is origin or h.is_async:
        return None
    a = h.node.args
    names = [x.arg for x in a.args]
    bound_self = False
    if h.cls is not None:
        if f.cls is None or h.cls is not f.cls or not (isinstance(call.func, ast.Attribute) and isinstance(call.func.value, ast.Name)
                                                       and f.params() and call.func.value.id == f.params()[0]):
            return None
        if h.decorators or not names:
            return None
        bound_self = True
    else:
        if h.decorators or h.module is not f.module:
            return None
        if h.parent is not None and h.parent is not f.parent and h.parent is not origin:
            return None
        if not isinstance(call.func, ast.Name):
            return None
    if a.vararg or a.kwarg or a.kwonlyargs or a.posonlyargs:
        return None
    body = h.node.body
    for x in ast.walk(h.node):
        if x is not h.node and isinstance(x, (ast.FunctionDef, ast.AsyncFunctionDef, ast.Lambda, ast.ClassDef)):
            return None
        if isinstance(x, (ast.Yield, ast.YieldFrom, ast.Await, ast.Global, ast.Nonlocal)):
            return None
        if isinstance(x, ast.Return):
            if mode == 'stmt' and not (x.value is None and body and x is body[-1]):
                return None
            if mode == 'value' and not (x.value is not None and body and x is body[-1]):
                return None
    if mode == 'value' and not (body and isinstance(body[-1], ast.Return)):
        return None
    formal = names[1:] if bound_self else names
    given = set(formal[:len(call.args)]) | {k.arg for k in call.keywords}
    if len(call.args) > len(formal) or not given <= set(formal) or len(given) != len(call.args) + len(call.keywords):
        return None
    if mode == 'value' and not all(isinstance(x, (ast.Name, ast.Constant)) for x in list(call.args) + [k.value for k in call.keywords]):
        return None     # (hoisting the call in front of its statement must not reorder anything that could have an effect)
    n_def = len(a.defaults)
    for i, nm in enumerate(names):
        if nm not in given and i < len(names) - n_def and not (bound_self and i == 0):
            return None
    return h


def _attr_aliases(f: Func) -> Dict[str, ast.AST]:
    """Locals of f that are plain names for an attribute chain: `x = r.a.b` where x is bound exactly once (no closure
    re-binds it), the root r keeps its meaning wherever x can be read (a parameter never re-bound, a name the function
    never binds, or the target of the one `for` whose body holds the binding) and the function never stores to an
    attribute called like a link of the chain.  Reading x is then reading r.a.b (`cls = self.__class__`,
    `fallbacks = self._sink_and_static_routes`, `set_header = resp.set_header`, `match = matcher.match`)."""
    node = f.node
    stores: Dict[str, int] = {}
    attr_stores: Set[str] = set()
    barred: Set[str] = set()
    for x in ast.walk(node):
        if isinstance(x, ast.Name) and isinstance(x.ctx, (ast.Store, ast.Del)):
            stores[x.id] = stores.get(x.id, 0) + 1
        elif isinstance(x, ast.Attribute) and isinstance(x.ctx, (ast.Store, ast.Del)):
            attr_stores.add(x.attr)
        elif isinstance(x, (ast.Global, ast.Nonlocal)):
            barred.update(x.names)
        elif isinstance(x, ast.ExceptHandler) and x.name:
            stores[x.name] = stores.get(x.name, 0) + 1
        elif isinstance(x, (ast.Import, ast.ImportFrom)):
            for al in x.names:
                nm = (al.asname or al.name).split('.')[0]
                stores[nm] = stores.get(nm, 0) + 1
        elif isinstance(x, (ast.FunctionDef, ast.AsyncFunctionDef, ast.ClassDef)) and x is not node:
            stores[x.name] = stores.get(x.name, 0) + 1
    params = set(f.params())
    for_of: Dict[str, ast.AST] = {}
    for x in walk_self(node):
        if isinstance(x, (ast.For, ast.AsyncFor)):
            for t in ast.walk(x.target):
                if isinstance(t, ast.Name):
                    for_of[t.id] = x
    out: Dict[str, ast.AST] = {}
    for st in walk_self(node):
        if isinstance(st, ast.Assign) and len(st.targets) == 1 and isinstance(st.targets[0], ast.Name):
            tgt, v = st.targets[0].id, st.value
        elif isinstance(st, ast.AnnAssign) and isinstance(st.target, ast.Name) and st.value is not None:
            tgt, v = st.target.id, st.value
        else:
            continue
        if tgt in params or tgt in barred or stores.get(tgt) != 1 or not isinstance(v, ast.Attribute):
            continue
        chain, root = [], v
        while isinstance(root, ast.Attribute):
            chain.append(root.attr)
            root = root.value
        if not isinstance(root, ast.Name) or root.id == tgt or root.id in barred or set(chain) & attr_stores:
            continue
        r = root.id
        if r in params:
            ok = stores.get(r, 0) == 0
        elif stores.get(r, 0) == 0:
            ok = True
        else:
            loop = for_of.get(r)
            ok = stores.get(r) == 1 and loop is not None and any(y is st for b in loop.body for y in ast.walk(b))
        if ok:
            out[tgt] = v
    return out


class _NoNested(ast.NodeTransformer):
    """A transformer that leaves nested defs / lambdas / classes alone."""

    def __init__(self, root):
        self._root = root

    def visit_FunctionDef(self, n):
        return self.generic_visit(n) if n is self._root else n

    visit_AsyncFunctionDef = visit_FunctionDef

    def visit_Lambda(self, n):
        return n

    def visit_ClassDef(self, n):
        return n


def aliased_view(p, f: Func) -> Func:
    """`f` with every local that only names an attribute chain (see _attr_aliases) replaced by the chain where it is
    read (`f` itself when it has none)."""
    import copy as _copy
    cache = p.__dict__.setdefault('_c02_alias_views', {})
    key = (f.qual, id(f.node))
    if key in cache:
        return cache[key]
    g = f
    aliases = _attr_aliases(f)
    if aliases:
        class Al(_NoNested):
            def visit_Name(self, n):
                if isinstance(n.ctx, ast.Load) and n.id in aliases:
                    return ast.copy_location(_copy.deepcopy(aliases[n.id]), n)
                return n

        node = _copy.deepcopy(f.node)
        for _ in range(3):       # (an alias of an alias: a few rounds settle it)
            node = Al(node).visit(node)
        ast.fix_missing_locations(node)
        g = Func(node, f.qual, f.module, f.cls, f.parent)
        g.nested = f.nested
        g.origin = f
    cache[key] = g
    return g


def inlined_view(p, f: Func, depth: int = 2) -> Func:
    """`f` as its statements read once two kinds of indirection are written out (qualname, module, class and nested
    defs of the original; `f` itself when there is nothing to write out):
    * a local that only names an attribute chain (see _attr_aliases) is replaced by the chain where it is read;
    * a call of a plain helper h (see _plain_helper) is replaced by h's body - a statement `h(args)`, a tail call
      `return h(args)` (h's returns become f's), or a call inside a simple statement whose helper ends in its one
      `return <expr>` (the body goes in front of the statement, the call becomes the returned value).  A parameter h
      never re-binds that is handed a name or a constant IS that name / constant; any other parameter becomes a fresh
      local bound to the argument (or its default) in front of the body; h's own locals are renamed apart.
    The view says what the statements of `f` do, in order, so that a rule reading stores / header calls / raises /
    returns of one function reads them through a local alias or an extracted helper as well.  (Shared: C20 may use it
    for the default OPTIONS closures.)"""
    import copy as _copy
    cache = p.__dict__.setdefault('_c02_inline_views', {})
    key = (f.qual, id(f.node))
    if key in cache:
        return cache[key]
    counter = [0]
    cur = [f]

    def splice(h: Func, call: ast.Call, st, mode: str, d: int):
        counter[0] += 1
        tag = '_inl%d_' % counter[0]
        names = [x.arg for x in h.node.args.args]
        stored = {x.id for x in ast.walk(h.node) if isinstance(x, ast.Name) and isinstance(x.ctx, (ast.Store, ast.Del))}
        stored |= {hd.name for hd in ast.walk(h.node) if isinstance(hd, ast.ExceptHandler) and hd.name}
        actual: Dict[str, ast.AST] = {}
        formal = names
        if h.cls is not None:
            actual[names[0]] = call.func.value
            formal = names[1:]
        actual.update(zip(formal, call.args))
        actual.update({k.arg: k.value for k in call.keywords})
        n_def = len(h.node.args.defaults)
        for i, nm in enumerate(names):
            if nm not in actual:
                actual[nm] = h.node.args.defaults[i - (len(names) - n_def)]
        subst: Dict[str, ast.AST] = {}
        pre = []
        for nm in names:
            a = actual[nm]
            # (the helper cannot re-bind a local of its caller, so a name handed to a parameter it never re-binds keeps its value)
            if nm not in stored and isinstance(a, (ast.Name, ast.Constant)):
                subst[nm] = a
            else:
                subst[nm] = ast.Name(id=tag + nm, ctx=ast.Load())
                pre.append(ast.copy_location(ast.Assign(targets=[ast.Name(id=tag + nm, ctx=ast.Store())], value=_copy.deepcopy(a)), st))
        for nm in stored - set(names):
            subst[nm] = ast.Name(id=tag + nm, ctx=ast.Load())

        class Sub(ast.NodeTransformer):
            def visit_Name(self, n):
                r = subst.get(n.id)
                if r is None:
                    return n
                if isinstance(n.ctx, ast.Load):
                    return ast.copy_location(_copy.deepcopy(r), n)
                if isinstance(r, ast.Name):
                    return ast.copy_location(ast.Name(id=r.id, ctx=n.ctx), n)
                return n

            def visit_ExceptHandler(self, n):
                self.generic_visit(n)
                r = subst.get(n.name) if n.name else None
                if isinstance(r, ast.Name):
                    n.name = r.id
                return n

        body = [_copy.deepcopy(s) for s in h.node.body]
        body = [s for s in body if not (isinstance(s, ast.Expr) and isinstance(s.value, ast.Constant))]
        ret = None
        if mode == 'stmt' and body and isinstance(body[-1], ast.Return):
            body = body[:-1]
        if mode == 'value':
            ret = ast.Name(id=tag + 'ret', ctx=ast.Load())
            body[-1] = ast.copy_location(ast.Assign(targets=[ast.Name(id=tag + 'ret', ctx=ast.Store())], value=body[-1].value), body[-1])
        body = [Sub().visit(s) for s in body]
        if mode == 'tail':
            hcfg = _cfg_of(h, p)
            if any(l != 'ret' for (x, l) in hcfg.pred[hcfg.exit] if x in hcfg.reachable_ids):
                body.append(ast.copy_location(ast.Return(value=ast.Constant(value=None)), st))
        body = body or [ast.copy_location(ast.Pass(), st)]
        body, _ch = expand(body, d + 1)
        return pre + body, ret

    def value_calls(st):
        """Calls inside a simple statement (not under a lambda / comprehension / conditional part: those need not run once)."""
        out = []

        def rec(e, cond):
            if isinstance(e, (ast.Lambda, ast.ListComp, ast.SetComp, ast.DictComp, ast.GeneratorExp)):
                return
            if isinstance(e, ast.Call) and not cond:
                out.append(e)
            if isinstance(e, ast.BoolOp):
                rec(e.values[0], cond)
                for v in e.values[1:]:
                    rec(v, True)
                return
            if isinstance(e, ast.IfExp):
                rec(e.test, cond)
                rec(e.body, True)
                rec(e.orelse, True)
                return
            for c in ast.iter_child_nodes(e):
                rec(c, cond)

        if isinstance(st, (ast.Assign, ast.AnnAssign, ast.AugAssign, ast.Expr, ast.Return)) and getattr(st, 'value', None) is not None:
            rec(st.value, False)
        return out

    def expand(stmts, d):
        out, changed = [], False
        for st in stmts:
            call, mode = None, None
            if isinstance(st, ast.Expr) and isinstance(st.value, ast.Call):
                call, mode = st.value, 'stmt'
            elif isinstance(st, ast.Return) and isinstance(st.value, ast.Call):
                call, mode = st.value, 'tail'
            if call is not None and d < depth:
                h = _plain_helper(p, cur[0], call, mode)
                if h is not None:
                    out.extend(splice(h, call, st, mode, d)[0])
                    changed = True
                    continue
            if d < depth:
                done = False
                for c in value_calls(st):
                    h = _plain_helper(p, cur[0], c, 'value')
                    if h is not None:
                        pre, ret = splice(h, c, st, 'value', d)

                        class Rep(ast.NodeTransformer):
                            def visit_Call(self, n, c=c, ret=ret):
                                if n is c:
                                    return ast.copy_location(ret, n)
                                return self.generic_visit(n)

                        st2 = Rep().visit(st)
                        more, _ch = expand([st2], d + 1)
                        out.extend(pre + more)
                        changed = done = True
                        break
                if done:
                    continue
            for fld in ('body', 'orelse', 'finalbody'):
                sub = getattr(st, fld, None)
                if isinstance(sub, list) and sub and isinstance(sub[0], ast.stmt) and not isinstance(st, (ast.FunctionDef, ast.AsyncFunctionDef, ast.ClassDef)):
                    new, ch = expand(sub, d)
                    if ch:
                        setattr(st, fld, new)
                        changed = True
            for hd in getattr(st, 'handlers', None) or []:
                new, ch = expand(hd.body, d)
                if ch:
                    hd.body = new
                    changed = True
            out.append(st)
        return out, changed

    g = aliased_view(p, f)
    node = g.node if g is not f else None
    cur[0] = g
    cand = [(st, c) for st in walk_no_nested(g.node) if isinstance(st, ast.stmt) for c in
            ([st.value] if isinstance(st, (ast.Expr, ast.Return)) and isinstance(st.value, ast.Call) else []) + value_calls(st)]
    if any(_plain_helper(p, g, c, m) is not None for (st, c) in cand for m in ('stmt', 'tail', 'value')):
        if node is None:
            node = _copy.deepcopy(f.node)
            g2 = Func(node, f.qual, f.module, f.cls, f.parent)
            g2.nested = f.nested
            g2.origin = f
            cur[0] = g2
        # (the calls of the copy resolve like those of the original: resolution goes by name through f's module / class)
        body, ch = expand(node.body, 0)
        if ch:
            node.body = body
            ast.fix_missing_locations(node)
            g = Func(node, f.qual, f.module, f.cls, f.parent)
            g.nested = f.nested
            g.origin = f
    cache[key] = g
    return g
