"""C02 - dispatch, 404/405/OPTIONS (DESIGN.md section 3, C02).

Declared anchors (private names whose disappearance is exit 2, never a
violation): the App attributes `_sinks`, `_static_routes`,
`_sink_and_static_routes`, `_sink_before_static_route`,
`_default_responder_path_not_found`, `_default_responder_bad_request`,
`_META_METHODS`; the functions `App._get_responder`,
`routing.util.map_http_methods`, `routing.util.set_default_responders`,
`responders.create_default_options`, `responders.create_method_not_allowed`.
R10: every default responder (the targets of App._default_responder_* of both App classes, the nested defs the two factories
return) is (req, resp, **kwargs).  R11: the 404 / 400 defaults never return, let only their own error class escape (E5
summary over callees), WSGI and ASGI twins alike.
R12: the matcher add_sink stores, evaluated on the two documented entrances of `prefix` (str / pattern object): a pattern object is
stored as it is (identity, flags kept), a str is re.compile()d.  R4 also: the list the 405 closures keep is a materialised sequence
on every path.  R5: the responder name is evaluated through the locals bound on the path (pieces: literal / suffix / opaque).
Wave k3 (behaviour-preserving patches): `_get_responder` is judged per RETURN (Dispatch.defs: the value of a tuple position at a
return is the expression written there or what reaches the local named there; everything is queried at the function exit), so
early returns read like the for/else + single return; the closures of the two responder factories, `_get_responder`,
`map_http_methods` are read through `inlined_view` (c01_helpers: a local that only names an attribute chain is the chain; a
statement / tail / value call of a plain module-level, same-class or sibling helper is its body), `set_default_responders` and
the registration functions through `aliased_view` / `_registry_view` (wave k4: a plain helper that is HANDED `self._sinks` / `self._static_routes`
is written out at the call, its parameter being the list).  A response object or method list handed to a callee that is not read in
place is UnknownIdiom (exit 2), never "the header is missing".
Roles inside those functions are found by def-use from contract positions
(return-tuple positions of `_get_responder`, parameter positions, the 3-tuple
shape `(matcher, object, is_sink)` of the fallback table).
"""

from __future__ import annotations

import ast
import re
from typing import Callable, Dict, FrozenSet, Iterable, List, Optional, Set, Tuple

from .. import flow
from ..cfg import CFG, cfg_of
from ..flow import ERROR
from ..model import AnchorError, Class, Func, UNKNOWN, UnknownIdiom, dotted, func_owner_class, short, walk_no_nested
from .appflow import ASGI_CALL, WSGI_CALL, AppFlow
from .common import implied, is_self_attr, nodes_within, single, strip_await, walk_self
from .c01_helpers import aliased_view, inlined_view      # (function views: local aliases / plain helpers written out; also used by C01)

APP = 'falcon.app.App'
ASGI_APP = 'falcon.asgi.app.App'
GETR = APP + '._get_responder'
SINKS = '_sinks'
STATICS = '_static_routes'
TABLE = '_sink_and_static_routes'
FLAG = '_sink_before_static_route'
NOT_FOUND = '_default_responder_path_not_found'
BAD_REQ = '_default_responder_bad_request'
UTIL = 'falcon.routing.util'
RESP = 'falcon.responders'
MUTATORS = {'append', 'insert', 'extend', 'pop', 'remove', 'clear', 'reverse', 'sort', '__setitem__', '__delitem__', '__iadd__'}


def _attr_named(e, name) -> bool:
    return isinstance(e, ast.Attribute) and e.attr == name


def edge_truth(test, truth: bool, classify: Callable[[ast.AST], int]) -> Optional[bool]:
    """Does the branch outcome `test == truth` decide the proposition P?

    `classify(e)` returns +1 when the sub-expression e *is* P, -1 when it is
    not-P, 0 otherwise.  The test is read as a boolean combination (and / or /
    not) of atoms; atoms that are neither P nor not-P are free variables.
    Returns True / False when P has that value under every assignment that
    gives the outcome, else None.  (Truth-table enumeration: exact for the
    propositional structure, independent of how the test is spelled.)"""
    atoms: List[str] = []

    def build(e):
        e = strip_await(e)
        k = classify(e)
        if k:
            return ('P', k > 0)
        if isinstance(e, ast.BoolOp):
            return ('and' if isinstance(e.op, ast.And) else 'or', [build(v) for v in e.values])
        if isinstance(e, ast.UnaryOp) and isinstance(e.op, ast.Not):
            return ('not', build(e.operand))
        if isinstance(e, ast.Constant):
            return ('const', bool(e.value))
        key = short(e)
        if key not in atoms:
            atoms.append(key)
        return ('atom', atoms.index(key))

    form = build(test)
    if len(atoms) > 10:
        return None

    def ev(f, pval, bits):
        k = f[0]
        if k == 'P':
            return pval == f[1]
        if k == 'const':
            return f[1]
        if k == 'atom':
            return bool(bits >> f[1] & 1)
        if k == 'not':
            return not ev(f[1], pval, bits)
        if k == 'and':
            return all(ev(x, pval, bits) for x in f[1])
        return any(ev(x, pval, bits) for x in f[1])

    seen = set()
    for pval in (True, False):
        for bits in range(1 << len(atoms)):
            if ev(form, pval, bits) == truth:
                seen.add(pval)
    if len(seen) == 1:
        return seen.pop()
    return None


def _none_classifier(name: str) -> Callable[[ast.AST], int]:
    """P = "<name> is None"."""

    def classify(e):
        if isinstance(e, ast.Compare) and len(e.ops) == 1 and isinstance(e.left, ast.Name) and e.left.id == name \
                and isinstance(e.comparators[0], ast.Constant) and e.comparators[0].value is None:
            if isinstance(e.ops[0], (ast.Is, ast.Eq)):
                return 1
            if isinstance(e.ops[0], (ast.IsNot, ast.NotEq)):
                return -1
        return 0

    return classify


def _pred_classifier(atom: Callable[[ast.AST], bool], neg: Optional[Callable[[ast.AST], bool]] = None) -> Callable[[ast.AST], int]:
    def classify(e):
        if atom(e):
            return 1
        if neg is not None and neg(e):
            return -1
        return 0

    return classify


def _edges(cfg: CFG, classify: Callable[[ast.AST], int], want: bool):
    out = []
    for n in cfg.live_nodes():
        if n.kind != 'test':
            continue
        for (y, l) in cfg.succ[n.id]:
            if l in ('T', 'F') and edge_truth(n.ast, l == 'T', classify) is want:
                out.append((n.id, y, l))
    return out


def _none_edges(cfg: CFG, name: str, want_none: bool):
    return _edges(cfg, _none_classifier(name), want_none)


def _truth_edges(cfg: CFG, atom: Callable, want: bool, neg: Optional[Callable] = None):
    return _edges(cfg, _pred_classifier(atom, neg), want)


def _defs_of(cfg: CFG, name: str) -> Dict[int, ast.AST]:
    """cfg node id -> value expression (or the statement, for unpacking /
    loop targets) of every definition of a local."""
    out = {}
    for n in cfg.live_nodes():
        if n.kind == 'stmt' and isinstance(n.ast, (ast.Assign, ast.AnnAssign, ast.AugAssign)):
            s = n.ast
            targets = s.targets if isinstance(s, ast.Assign) else [s.target]
            if isinstance(s, ast.AnnAssign) and s.value is None:
                continue
            for t in targets:
                if isinstance(t, ast.Name) and t.id == name:
                    out[n.id] = s.value if not isinstance(s, ast.AugAssign) else s
                elif isinstance(t, (ast.Tuple, ast.List)) and any(isinstance(x, ast.Name) and x.id == name for x in ast.walk(t)):
                    out[n.id] = s
        elif n.kind == 'iter' and any(isinstance(x, ast.Name) and x.id == name for x in ast.walk(n.stmt.target)):
            out[n.id] = n.stmt
        elif n.kind == 'handler' and n.ast.name == name:
            out[n.id] = n.ast
    return out


def reaching_defs(cfg: CFG, defs: Dict[int, ast.AST], starts: Dict[int, FrozenSet[int]],
                  edge_ok: Optional[Callable[[int, int, str], bool]] = None) -> Dict[int, FrozenSet[int]]:
    """May-reaching definitions (facts at node entry).  A definition takes
    effect on the normal out-edges of its node only."""
    IN: Dict[int, Set[int]] = {k: set(v) for k, v in starts.items()}
    seen_start = set(starts)
    work = list(starts)
    visited: Set[int] = set()
    while work:
        x = work.pop()
        fx = IN.get(x, set())
        first = x not in visited
        visited.add(x)
        for (y, l) in cfg.succ[x]:
            if edge_ok is not None and not edge_ok(x, y, l):
                continue
            out = {x} if (x in defs and l != 'exc') else fx
            cur = IN.get(y)
            if cur is None:
                IN[y] = set(out)
                work.append(y)
            elif not out <= cur or (y not in visited):
                cur |= out
                work.append(y)
    return {k: frozenset(v) for k, v in IN.items()}


class Dispatch:
    """Anchors of App._get_responder (read through plain helpers, see inlined_view).

    The function hands back `(responder, params, resource, uri_template)`; every `return` is judged by itself: the
    value of position k at a return is the expression written there, or - where the return names the local the
    function uses for that position - what reaches it.  `defs(k)` is that as a definition table: the bindings of the
    local, plus every return whose own element k is another expression (a loop variable such as the table entry's
    object, `m.groupdict()`, `{}`, `None`) as a definition located at that return.  All of it is queried at the
    function exit (`ret_node`), where every return arrives."""

    def __init__(self, run):
        p = run.project
        self.p = p
        self.orig = p.func(GETR)
        self.f = f = inlined_view(p, self.orig)
        self.cfg = cfg = cfg_of(f, p)
        run.use_cfg(cfg)
        loops = [n for n in walk_self(f.node) if isinstance(n, (ast.For, ast.AsyncFor)) and any(_attr_named(x, TABLE) for x in walk_self(n.iter))]
        self.loop = single(loops, 'loop over self.%s' % TABLE, GETR)
        self.iter_node = single([i for i in cfg.nodes_for(self.loop) if cfg.node(i).kind == 'iter'], 'loop header', GETR)
        self.body = nodes_within(cfg, self.loop.body)
        t = self.loop.target
        if isinstance(t, ast.Name) and self.loop.body:
            # `for entry in table: matcher, obj, is_sink = entry` - the entry unpacked by the first statement of the body
            # (and not looked at otherwise) is the same three loop variables
            b0 = self.loop.body[0]
            uses = [x for x in walk_self(f.node) if isinstance(x, ast.Name) and x.id == t.id]
            if isinstance(b0, ast.Assign) and len(b0.targets) == 1 and isinstance(b0.value, ast.Name) and b0.value.id == t.id and len(uses) == 2:
                t = b0.targets[0]
        if not (isinstance(t, ast.Tuple) and len(t.elts) == 3 and all(isinstance(e, ast.Name) for e in t.elts)):
            raise UnknownIdiom('%s: loop target %s is not (matcher, object, is_sink)' % (GETR, short(self.loop.target)))
        self.v_matcher, self.v_obj, self.v_is_sink = loopvars = [e.id for e in t.elts]
        rets = [n for n in walk_self(f.node) if isinstance(n, ast.Return)]
        if not rets:
            raise AnchorError('%s: no return statement' % GETR)
        for r in rets:
            v = r.value
            if not (isinstance(v, ast.Tuple) and len(v.elts) == 4 and not any(isinstance(e, ast.Starred) for e in v.elts)):
                raise UnknownIdiom('%s: return shape %s' % (GETR, short(v) if v is not None else 'return'))
        if any(l != 'ret' for (x, l) in cfg.pred[cfg.exit] if x in cfg.reachable_ids):
            raise UnknownIdiom('%s can fall off its end (no 4-tuple returned)' % GETR)
        self.ret_nodes: Dict[int, ast.Return] = {i: r for r in rets for i in cfg.nodes_for(r)}
        if not self.ret_nodes:
            raise AnchorError('%s: no reachable return statement' % GETR)
        self.names: List[Optional[str]] = []
        for k in range(3):
            names = sorted({r.value.elts[k].id for r in self.ret_nodes.values() if isinstance(r.value.elts[k], ast.Name) and r.value.elts[k].id not in loopvars})
            if len(names) > 1:
                raise UnknownIdiom('%s: position %d of the returned tuple is kept in several locals (%s)' % (GETR, k, ', '.join(names)))
            self.names.append(names[0] if names else None)
        self.v_responder, self.v_params, self.v_resource = self.names
        if self.v_resource is None:
            raise UnknownIdiom('%s: no return hands back the resource local' % GETR)
        self.ret_node = cfg.exit
        self._defs: Dict[int, Dict[int, ast.AST]] = {}

    def is_match_call(self, e) -> bool:
        """`<this entry's matcher>.match(...)`."""
        return (isinstance(e, ast.Call) and isinstance(e.func, ast.Attribute) and e.func.attr == 'match'
                and isinstance(e.func.value, ast.Name) and e.func.value.id == self.v_matcher)

    def match_vars(self) -> Set[str]:
        """Locals the loop body binds to the result of this entry's matcher (`m = matcher.match(path)`, `if m := ...`)."""
        out = set()
        for i in self.body:
            n = self.cfg.node(i)
            if n.kind == 'stmt' and isinstance(n.ast, ast.Assign) and len(n.ast.targets) == 1 and isinstance(n.ast.targets[0], ast.Name) \
                    and self.is_match_call(n.ast.value):
                out.add(n.ast.targets[0].id)
            for x in n.walk():
                if isinstance(x, ast.NamedExpr) and isinstance(x.target, ast.Name) and self.is_match_call(x.value):
                    out.add(x.target.id)
        return out

    def defs(self, k: int) -> Dict[int, ast.AST]:
        if k not in self._defs:
            name = self.names[k]
            out = dict(_defs_of(self.cfg, name)) if name else {}
            for nid, r in self.ret_nodes.items():
                e = r.value.elts[k]
                if not (isinstance(e, ast.Name) and e.id == name):
                    out[nid] = e
            self._defs[k] = out
        return self._defs[k]


def _dispatch(run) -> Dispatch:
    d = getattr(run, '_c02_dispatch', None)
    if d is None:
        d = Dispatch(run)
        run._c02_dispatch = d
    return d


# ---------------------------------------------------------------------------
# R1 route masks fallbacks
# ---------------------------------------------------------------------------

def _class_attr_target(p, cqual: str, attr: str) -> Optional[str]:
    c, val = p.lookup_class_attr(cqual, attr)
    if val is None:
        return None
    return p.resolve_expr(c.module, val)


def _escaping_classes(p, E, g: Func) -> Dict[str, list]:
    """Exception classes that can leave g (E5 summary closed over callees),
    with two readings the summary does not make itself: `x = Cls(..); raise x`
    raises Cls, and what the constructor of a raised exception class might
    raise internally is not an outcome of g (the summary already leaves it
    out for `raise Cls(..)`)."""
    summ = E.summary(g)
    ctor_locs = set()
    for c in walk_no_nested(g.node):
        if isinstance(c, ast.Call):
            t = p.callee(g, c)
            if isinstance(t, Class) and p.is_subclass(t.qual, 'builtins.BaseException') is True:
                ctor_locs.add(g.loc(c))
    out: Dict[str, list] = {}
    for q, chain in summ.items():
        if q.startswith('?'):
            name = q[1:]
            vals = [n.value for n in walk_no_nested(g.node) if isinstance(n, (ast.Assign, ast.AnnAssign)) and n.value is not None
                    and any(isinstance(t, ast.Name) and t.id == name for t in (n.targets if isinstance(n, ast.Assign) else [n.target]))]
            classes = [p.callee(g, v) if isinstance(v, ast.Call) else None for v in vals]
            if not vals or not all(isinstance(t, Class) for t in classes):
                raise UnknownIdiom('%s: `raise %s`: what it raises is not read' % (g.qual, name))
            for t in classes:
                out.setdefault(t.qual, list(chain))
        elif chain and chain[0][0] in ctor_locs and chain[0][1].startswith('call '):
            continue
        else:
            out[q] = list(chain)
    return out


def _no_return_nodes(p, g: Func, cfg: CFG, _depth: int = 0) -> Set[int]:
    """CFG nodes that call a function of the analysed tree which itself never
    returns normally (e.g. the ASGI twin delegating to the WSGI responder)."""
    out: Set[int] = set()
    if _depth > 3:
        return out
    for n in cfg.live_nodes():
        for c in n.calls():
            t = p.callee(g, c)
            if isinstance(t, Func) and t is not g:
                tcfg = cfg_of(t, p)
                if tcfg.exit not in flow.reachable(tcfg, [tcfg.entry], avoid_nodes=_no_return_nodes(p, t, tcfg, _depth + 1)):
                    out.add(n.id)
    return out


def _always_raises(run, fq: str, base: str) -> Tuple[bool, Optional[str]]:
    from ..escape import Escape
    p = run.project
    g = p.func(fq)
    cfg = cfg_of(g, p)
    run.use_cfg(cfg)
    if cfg.exit in flow.reachable(cfg, [cfg.entry], avoid_nodes=_no_return_nodes(p, g, cfg)):
        return False, 'can return normally'
    classes = _escaping_classes(p, Escape(p), g)
    for q in sorted(classes):
        if p.is_subclass(q, base) is not True:
            return False, 'raises %s' % q
    return bool(classes), None if classes else 'no raise statement'


def r1_route_masks(run):
    d = _dispatch(run)
    p, f, cfg = d.p, d.f, d.cfg
    # (a) the fallback scan is reachable only where no resource was found
    none_edges = _none_edges(cfg, d.v_resource, True)
    truthy = _truth_edges(cfg, lambda e: isinstance(e, ast.Name) and e.id == d.v_resource, False)
    ok = bool(none_edges) and d.iter_node not in flow.reachable(cfg, [cfg.entry], avoid_edges=none_edges)
    wit = None
    if not ok:
        path = flow.find_path(cfg, [cfg.entry], [d.iter_node], avoid_edges=none_edges)
        wit = flow.describe_path(cfg, path) if path else None
        if truthy and d.iter_node not in flow.reachable(cfg, [cfg.entry], avoid_edges=none_edges + truthy):
            wit = (wit or []) + ['the scan is guarded by the truthiness of the resource, not by `is None`: a falsy resource object does not mask the fallbacks']
    run.check(ok, 'sinks and static routes are consulted only when the router found no resource (a route always masks them)', f,
              'for %s in %s' % (short(d.loop.target), short(d.loop.iter)), where=f.loc(d.loop), witness=wit,
              runtime_witness='a request matching both a route and a sink prefix is answered by the sink')
    # (b) first match wins: an assignment of the responder inside the loop leaves the loop
    defs = d.defs(0)
    inner = [n for n in defs if n in d.body]
    if not inner:
        raise AnchorError('%s: the scan never assigns the responder' % GETR)
    for n in inner:
        path = flow.find_path(cfg, [y for (y, l) in cfg.succ[n] if l != 'exc'], [d.iter_node], edge_filter=flow.no_exc)
        run.check(path is None, 'the scan stops at the first matching sink/static route', f, cfg.node(n).ast, where='%s:%s' % (f.file, cfg.node(n).lineno),
                  witness=flow.describe_path(cfg, path) if path else None,
                  runtime_witness='two sinks with overlapping prefixes: the older one answers')
        v = defs[n]
        run.check(isinstance(v, ast.Name) and v.id == d.v_obj, 'the matched table entry\'s own object becomes the responder', f, cfg.node(n).ast,
                  where='%s:%s' % (f.file, cfg.node(n).lineno))
        # and only under a truthy match of this entry's matcher
        mvars = d.match_vars()

        def is_match(e):
            if isinstance(e, ast.Name) and e.id in mvars:
                return True
            if isinstance(e, ast.NamedExpr):
                return is_match(e.value)
            return d.is_match_call(e)

        medges = _truth_edges(cfg, is_match, True)
        run.check(bool(medges) and n not in flow.reachable(cfg, [d.iter_node], avoid_edges=medges, avoid_nodes=[]), 'an entry is selected only when its matcher matched the path',
                  f, cfg.node(n).ast, where='%s:%s' % (f.file, cfg.node(n).lineno))
    # (c) the no-match exit selects the path-not-found default
    full = reaching_defs(cfg, defs, {cfg.entry: frozenset()})
    done = [y for (y, l) in cfg.succ[d.iter_node] if l == 'done']
    if not done:
        raise UnknownIdiom('%s: loop without exhausted edge' % GETR)
    at_iter = frozenset(x for x in full.get(d.iter_node, frozenset()) if x not in d.body)
    after = reaching_defs(cfg, defs, {y: at_iter for y in done}, edge_ok=lambda a, b, l: a not in d.body and a != d.iter_node)
    got = after.get(d.ret_node, frozenset())

    def is_default(v, attr):
        return isinstance(v, ast.Attribute) and v.attr == attr

    bad = [x for x in got if not is_default(defs[x], NOT_FOUND)]
    run.check(bool(got) and not bad, 'when no sink/static route matches the path-not-found default responder is selected', f,
              cfg.node(bad[0]).ast if bad else 'no-match exit of the fallback scan', where=f.loc(d.loop),
              witness=[cfg.node(x).text() for x in got] or ['no definition of the responder reaches the return'],
              runtime_witness='an unrouted path is answered by something other than 404')
    # (d) on the routed branch the responder is the method map entry or the bad-request default
    some = _none_edges(cfg, d.v_resource, False)
    if not some:
        raise AnchorError('%s: no branch on the resource being found' % GETR)
    routed = reaching_defs(cfg, defs, {e[1]: frozenset() for e in some})
    got = routed.get(d.ret_node, frozenset())
    def routed_value(v) -> bool:
        # the method-map entry `mm[method]`, the invalid-method default, or both in one: `mm.get(method, <the default>)`
        if is_default(v, BAD_REQ) or (isinstance(v, ast.Subscript) and isinstance(v.value, ast.Name)):
            return True
        return (isinstance(v, ast.Call) and isinstance(v.func, ast.Attribute) and v.func.attr == 'get' and isinstance(v.func.value, ast.Name)
                and len(v.args) == 2 and not v.keywords and is_default(v.args[1], BAD_REQ))

    bad = [x for x in got if not routed_value(defs[x])]
    run.check(bool(got) and not bad, 'a matched route answers with its method-map entry (or the invalid-method default), never with a fallback', f,
              cfg.node(bad[0]).ast if bad else 'routed branch', where=f.loc(),
              witness=[cfg.node(x).text() for x in got] or ['no definition of the responder reaches the return'])
    # the defaults are what they claim to be
    for cq in (APP, ASGI_APP):
        p.cls(cq)
        tq = _class_attr_target(p, cq, NOT_FOUND)
        if not tq or tq not in p.funcs:
            raise AnchorError('%s.%s does not resolve to a function' % (cq, NOT_FOUND))
        ok, why = _always_raises(run, tq, 'falcon.errors.HTTPNotFound')
        run.check(ok, '%s.%s always raises a 404 error' % (cq.rsplit('.', 2)[-2] + '.App', NOT_FOUND), p.func(tq), p.func(tq).node.name, where=p.func(tq).loc(), witness=[why] if why else None)
    nf = p.func('falcon.errors.HTTPNotFound.__init__')
    sup = [c for c in walk_self(nf.node) if isinstance(c, ast.Call) and isinstance(c.func, ast.Attribute) and c.func.attr == '__init__' and c.args]
    if not sup:
        raise AnchorError('HTTPNotFound.__init__ does not call super().__init__(status, ...)')
    st = p.fold(nf.module, sup[0].args[0], None, nf)
    run.check(isinstance(st, str) and st.startswith('404'), 'HTTPNotFound carries status 404', nf, sup[0].args[0])


# ---------------------------------------------------------------------------
# R2 / R3 the fallback tables
# ---------------------------------------------------------------------------

def _strip_seq(e) -> Tuple[ast.AST, bool]:
    """(inner expression, reversed?) through list()/tuple()/reversed()/[::-1]."""
    rev = False
    while True:
        if isinstance(e, ast.Call) and isinstance(e.func, ast.Name) and e.func.id in ('list', 'tuple') and len(e.args) == 1 and not e.keywords:
            e = e.args[0]
        elif isinstance(e, ast.Call) and isinstance(e.func, ast.Name) and e.func.id == 'reversed' and len(e.args) == 1:
            rev = not rev
            e = e.args[0]
        elif isinstance(e, ast.Subscript) and isinstance(e.slice, ast.Slice) and e.slice.lower is None and e.slice.upper is None \
                and isinstance(e.slice.step, ast.UnaryOp) and isinstance(e.slice.step.op, ast.USub) and isinstance(e.slice.step.operand, ast.Constant) and e.slice.step.operand.value == 1:
            rev = not rev
            e = e.value
        elif isinstance(e, ast.Starred):
            e = e.value
        else:
            return e, rev


def _concat_operands(e) -> List[Tuple[str, bool]]:
    """[(list attribute name, reversed?)] of a concatenation of the two lists."""
    e, rev_all = _strip_seq(e)
    parts: List[ast.AST] = []
    if isinstance(e, ast.BinOp) and isinstance(e.op, ast.Add):
        def flat(x):
            x2, r = _strip_seq(x)
            if isinstance(x2, ast.BinOp) and isinstance(x2.op, ast.Add) and not r:
                flat(x2.left)
                flat(x2.right)
            else:
                parts.append(x)
        flat(e)
    elif isinstance(e, (ast.Tuple, ast.List)) and e.elts and all(isinstance(x, ast.Starred) for x in e.elts):
        parts = list(e.elts)
    else:
        raise UnknownIdiom('table rebuild expression %s' % short(e))
    out = []
    for x in parts:
        inner, r = _strip_seq(x)
        if isinstance(inner, ast.Attribute) and inner.attr in (SINKS, STATICS):
            out.append((inner.attr, r))
        else:
            raise UnknownIdiom('table rebuild operand %s' % short(x))
    if rev_all:
        out = [(a, not r) for (a, r) in reversed(out)]
    return out


def _registry_view(p, f: Func) -> Func:
    """`f` (its aliased view) with every call `self.h(.., self._sinks, ..)` / `h(.., self._static_routes, ..)` of a plain
    helper (c01_helpers._plain_helper: same class or module level, synchronous, undecorated, falls off its end) that is
    HANDED one of the two registration lists replaced by h's body, the parameter bound to the list written as the list
    attribute itself: `registry.insert(0, entry)` in `App._push_fallback_entry(self, registry, entry)` called as
    `self._push_fallback_entry(self._sinks, (prefix, sink, True))` is `self._sinks.insert(0, <entry>)` inside add_sink,
    followed by whatever else the helper does (the refresh).  The parameter IS the attribute only while both name one
    object: h never re-binds the parameter, never stores to an attribute called like the lists, and up to its last use of
    the parameter calls nothing that may (a function of the analysed tree is read for such a store, depth <= 3; a
    method of self that does not resolve may).  Other parameters are the name /
    constant handed in, or a fresh local bound to the argument in front of the body; h's own locals are renamed apart.
    A list handed to a function of the analysed tree that cannot be read this way is UnknownIdiom (what the callee
    does to the list is not seen), never skipped."""
    import copy as _copy
    from .c01_helpers import _plain_helper
    cache = p.__dict__.setdefault('_c02_registry_views', {})
    key = (f.qual, id(f.node))
    if key in cache:
        return cache[key]
    g = aliased_view(p, f)
    me = g.params()[0] if (g.cls is not None and g.params()) else None

    def is_list(e) -> bool:
        return isinstance(e, ast.Attribute) and e.attr in (SINKS, STATICS) and isinstance(e.ctx, ast.Load)

    def handed(c: ast.Call) -> bool:
        return any(is_list(a) for a in list(c.args) + [k.value for k in c.keywords])

    if not any(isinstance(c, ast.Call) and handed(c) and isinstance(p.callee(g, c), Func) for c in walk_no_nested(g.node)):
        cache[key] = g
        return g
    node = _copy.deepcopy(g.node)
    view = Func(node, f.qual, f.module, f.cls, f.parent)
    view.nested = f.nested
    view.origin = getattr(g, 'origin', f)
    counter = [0]

    def may_rebind_call(h: Func, c: ast.Call, hself: Optional[str], depth: int, seen: Set[str]) -> bool:
        """May this call (made inside h) store to an attribute called like the lists?  A function of the analysed tree is
        read (its own stores, its callees, depth <= 3); a method of self that does not resolve may; anything else (a
        builtin, a method of another object such as the list itself) does not re-bind an attribute of the app."""
        k = p.callee(h, c)
        if isinstance(k, Class):
            k = k.methods.get('__init__') if hasattr(k, 'methods') else None
            if k is None:
                return False
        if not isinstance(k, Func):
            return isinstance(c.func, ast.Attribute) and isinstance(c.func.value, ast.Name) and c.func.value.id == hself and hself is not None
        if k.qual in seen:
            return False
        seen.add(k.qual)
        if depth >= 3:
            return True
        if any(isinstance(x, ast.Attribute) and x.attr in (SINKS, STATICS) and isinstance(x.ctx, (ast.Store, ast.Del)) for x in ast.walk(k.node)):
            return True
        kself = k.params()[0] if (k.cls is not None and k.params()) else None
        return any(isinstance(x, ast.Call) and may_rebind_call(k, x, kself, depth + 1, seen) for x in ast.walk(k.node))

    def splice(h: Func, call: ast.Call, st) -> List[ast.stmt]:
        counter[0] += 1
        tag = '_reg%d_' % counter[0]
        names = [x.arg for x in h.node.args.args]
        stored = {x.id for x in ast.walk(h.node) if isinstance(x, ast.Name) and isinstance(x.ctx, (ast.Store, ast.Del))}
        stored |= {hd.name for hd in ast.walk(h.node) if isinstance(hd, ast.ExceptHandler) and hd.name}
        actual: Dict[str, ast.AST] = {}
        formal = names
        hself = None
        if h.cls is not None:
            actual[names[0]] = call.func.value
            hself = names[0]
            formal = names[1:]
        actual.update(zip(formal, call.args))
        actual.update({k.arg: k.value for k in call.keywords})
        n_def = len(h.node.args.defaults)
        for i, nm in enumerate(names):
            if nm not in actual:
                actual[nm] = h.node.args.defaults[i - (len(names) - n_def)]
        body = [s for s in h.node.body if not (isinstance(s, ast.Expr) and isinstance(s.value, ast.Constant))]
        if body and isinstance(body[-1], ast.Return):
            body = body[:-1]
        subst: Dict[str, ast.AST] = {}
        pre: List[ast.stmt] = []
        for nm in names:
            a = actual[nm]
            if is_list(a):
                why = None
                if not (isinstance(a.value, ast.Name) and a.value.id == me and me is not None):
                    why = 'the list is not an attribute of self at the call'
                elif nm in stored:
                    why = 'the helper re-binds its parameter `%s`' % nm
                elif any(isinstance(x, ast.Attribute) and x.attr in (SINKS, STATICS) and isinstance(x.ctx, (ast.Store, ast.Del)) for x in ast.walk(h.node)):
                    why = 'the helper stores to the list attribute'
                else:
                    uses = [i for i, s in enumerate(body) if any(isinstance(x, ast.Name) and x.id == nm for x in ast.walk(s))]
                    for s in body[:uses[-1] + 1] if uses else []:
                        for x in ast.walk(s):
                            if isinstance(x, ast.Call) and may_rebind_call(h, x, hself, 0, set()):
                                why = 'the helper calls %s, which may re-bind the list attribute, while it still uses `%s`' % (short(x.func, 60), nm)
                if why:
                    raise UnknownIdiom('%s hands %s to %s, which is not read in place (%s)' % (f.qual, short(a), h.qual, why))
                subst[nm] = a
            elif nm not in stored and isinstance(a, (ast.Name, ast.Constant)):
                subst[nm] = a
            else:
                subst[nm] = ast.Name(id=tag + nm, ctx=ast.Load())
                pre.append(ast.copy_location(ast.Assign(targets=[ast.Name(id=tag + nm, ctx=ast.Store())], value=_copy.deepcopy(a)), st))
        for nm in stored - set(names):
            subst[nm] = ast.Name(id=tag + nm, ctx=ast.Load())

        class Sub(ast.NodeTransformer):
            def visit_Name(self, n):
                r = subst.get(n.id)
                if r is None:
                    return n
                if isinstance(n.ctx, ast.Load):
                    return ast.copy_location(_copy.deepcopy(r), n)
                if isinstance(r, ast.Name):
                    return ast.copy_location(ast.Name(id=r.id, ctx=n.ctx), n)
                return n

            def visit_ExceptHandler(self, n):
                self.generic_visit(n)
                r = subst.get(n.name) if n.name else None
                if isinstance(r, ast.Name):
                    n.name = r.id
                return n

        out = pre + [Sub().visit(_copy.deepcopy(s)) for s in body]
        if isinstance(st, ast.Return):
            out.append(ast.copy_location(ast.Return(value=ast.Constant(value=None)), st))
        return out or [ast.copy_location(ast.Pass(), st)]

    def expand(stmts):
        out = []
        for st in stmts:
            if isinstance(st, (ast.Expr, ast.Return)) and isinstance(st.value, ast.Call) and handed(st.value):
                h = _plain_helper(p, view, st.value, 'stmt')
                if h is not None:
                    out.extend(splice(h, st.value, st))
                    continue
            for fld in ('body', 'orelse', 'finalbody'):
                sub = getattr(st, fld, None)
                if isinstance(sub, list) and sub and isinstance(sub[0], ast.stmt) and not isinstance(st, (ast.FunctionDef, ast.AsyncFunctionDef, ast.ClassDef)):
                    setattr(st, fld, expand(sub))
            for hd in getattr(st, 'handlers', None) or []:
                hd.body = expand(hd.body)
            out.append(st)
        return out

    node.body = expand(node.body)
    ast.fix_missing_locations(node)
    # what is still handed over (a call inside an expression, a callee that is no plain helper) is not seen
    for c in walk_no_nested(node):
        if isinstance(c, ast.Call) and handed(c):
            h = p.callee(view, c)
            if isinstance(h, Func):
                raise UnknownIdiom('%s hands %s to %s, which is not read in place' % (
                    f.qual, ' / '.join(sorted({short(a) for a in list(c.args) + [k.value for k in c.keywords] if is_list(a)})), h.qual))
    cache[key] = view
    return view


class Tables:
    def __init__(self, run):
        p = run.project
        self.p = p
        app = p.cls(APP)
        # every mention of the two lists in the package
        self.insertions: List[Tuple[str, str, Func, ast.Call]] = []  # (list, polarity, func, call)
        self.other_writes: List[Tuple[str, Func, ast.AST]] = []
        self.empty_inits: List[Tuple[str, Func, ast.AST]] = []
        self.rebuild_stores: List[Tuple[Func, ast.AST, ast.AST]] = []  # (func, stmt, value)
        self.table_other: List[Tuple[Func, ast.AST]] = []
        for f in list(p.all_functions()):
            if not any(isinstance(x, ast.Attribute) and x.attr in (SINKS, STATICS, TABLE) for x in walk_no_nested(f.node)):
                continue
            f = _registry_view(p, f)    # (`sinks = self._sinks; sinks.insert(0, entry)` / `self._push(self._sinks, entry)` -> `registry.insert(0, entry)` is an insertion into self._sinks)
            for n in walk_no_nested(f.node):
                if isinstance(n, ast.Call) and isinstance(n.func, ast.Attribute) and isinstance(n.func.value, ast.Attribute) \
                        and n.func.value.attr in (SINKS, STATICS, TABLE) and n.func.attr in MUTATORS:
                    which = n.func.value.attr
                    if which == TABLE:
                        self.table_other.append((f, n))
                        continue
                    m = n.func.attr
                    if m == 'append':
                        self.insertions.append((which, 'tail', f, n))
                    elif m == 'insert' and len(n.args) == 2:
                        pos = n.args[0]
                        if isinstance(pos, ast.Constant) and pos.value == 0:
                            self.insertions.append((which, 'head', f, n))
                        else:
                            self.insertions.append((which, 'other', f, n))
                    else:
                        self.other_writes.append((which, f, n))
                elif isinstance(n, (ast.Assign, ast.AnnAssign, ast.AugAssign)):
                    targets = n.targets if isinstance(n, ast.Assign) else [n.target]
                    for t in targets:
                        if isinstance(t, ast.Attribute) and t.attr in (SINKS, STATICS):
                            v = n.value
                            if isinstance(n, ast.Assign) and isinstance(v, ast.List) and not v.elts:
                                self.empty_inits.append((t.attr, f, n))
                            elif isinstance(n, ast.AnnAssign) and v is None:
                                pass
                            else:
                                pol = self._assign_polarity(t.attr, n)
                                if pol is None:
                                    self.other_writes.append((t.attr, f, n))
                                else:
                                    self.insertions.append((t.attr, pol, f, n))
                        elif isinstance(t, ast.Attribute) and t.attr == TABLE and not (isinstance(n, ast.AnnAssign) and n.value is None):
                            self.rebuild_stores.append((f, n, n.value))
                        elif isinstance(t, ast.Subscript) and isinstance(t.value, ast.Attribute) and t.value.attr in (SINKS, STATICS, TABLE):
                            self.other_writes.append((t.value.attr, f, n))
                elif isinstance(n, ast.Delete):
                    for t in n.targets:
                        tv = t.value if isinstance(t, ast.Subscript) else t
                        if isinstance(tv, ast.Attribute) and tv.attr in (SINKS, STATICS, TABLE):
                            self.other_writes.append((tv.attr, f, n))
        for which in (SINKS, STATICS):
            if not [i for i in self.insertions if i[0] == which]:
                raise AnchorError('no insertion into App.%s found' % which)
        # a rebuilder: a function that stores a non-empty-literal value into the
        # combined table and READS both lists (in the stored expression or through
        # locals: `routes = self._sinks + self._static_routes; ...; self.T = tuple(routes)`)
        self.rebuilders: Dict[str, Func] = {}
        for (f, stmt, v) in self.rebuild_stores:
            if v is None or (isinstance(v, (ast.Tuple, ast.List)) and not v.elts):
                continue
            if self._reads(f, 0, set()) == {SINKS, STATICS}:
                self.rebuilders[f.qual] = f
        if not self.rebuilders:
            raise AnchorError('no function rebuilds App.%s from both lists' % TABLE)

    def _reads(self, f: Func, depth: int, seen: Set[str]) -> Set[str]:
        """which of the two lists f reads, directly or through same-module callees (depth <= 3)"""
        seen.add(f.qual)
        out = {x.attr for x in walk_no_nested(f.node) if isinstance(x, ast.Attribute) and x.attr in (SINKS, STATICS) and isinstance(x.ctx, ast.Load)}
        if depth < 3:
            for c in walk_no_nested(f.node):
                if isinstance(c, ast.Call):
                    g = self.p.callee(f, c)
                    if isinstance(g, Func) and g.qual not in seen and g.module is f.module:
                        out |= self._reads(g, depth + 1, seen)
        return out

    @staticmethod
    def _assign_polarity(attr, n) -> Optional[str]:
        """`self.L = [x] + self.L` (head) / `self.L = self.L + [x]` or `self.L += [x]` (tail)."""
        if isinstance(n, ast.AugAssign) and isinstance(n.op, ast.Add) and isinstance(n.value, (ast.List, ast.Tuple)):
            return 'tail'
        v = n.value
        if isinstance(v, ast.BinOp) and isinstance(v.op, ast.Add):
            l, r = v.left, v.right
            if isinstance(l, (ast.List, ast.Tuple)) and _attr_named(r, attr):
                return 'head'
            if isinstance(r, (ast.List, ast.Tuple)) and _attr_named(l, attr):
                return 'tail'
        if isinstance(v, ast.List) and len(v.elts) == 2 and sum(isinstance(x, ast.Starred) for x in v.elts) == 1:
            # [entry, *self.L] (head) / [*self.L, entry] (tail)
            star = [x for x in v.elts if isinstance(x, ast.Starred)][0]
            if _attr_named(star.value, attr):
                return 'head' if v.elts[1] is star else 'tail'
        return None


def _tables(run) -> Tables:
    t = getattr(run, '_c02_tables', None)
    if t is None:
        t = Tables(run)
        run._c02_tables = t
    return t


# --- the rebuild of the combined table, evaluated on symbolic lists ------------

class _OpaqueValue:
    def __repr__(self):
        return '<opaque>'


_OPAQUE = _OpaqueValue()
_TRACKED_ATTRS = (SINKS, STATICS, TABLE, FLAG)
_CHAIN = ('itertools.chain',)


class _Stop(Exception):
    """return / raise reached while evaluating a function body."""

    def __init__(self, kind, value=None):
        self.kind, self.value = kind, value


class RebuildEval:
    """Concrete evaluation of a function that rebuilds App._sink_and_static_routes
    on SYMBOLIC registration lists (lists of tokens) for one value of the order
    option.  The lists are real Python lists, so aliasing (`routes = self._sinks;
    routes.reverse()`) behaves as at run time.

    Reads: assignments to locals / to the table / to the lists, `+`, `+=`,
    list()/tuple()/reversed()/itertools.chain(), displays with `*`, constant
    slices and indexes, `.reverse() .extend() .append() .insert() .copy()` of a
    tracked list, conditional expressions, if/else over the option (and / or /
    not / `is True`), identity comprehensions, and calls of package functions
    without side conditions (looked through, depth <= 3).  Statements that
    mention neither the lists, the table, the option nor a local computed from
    them are skipped.  Anything else that touches them is UnknownIdiom."""

    def __init__(self, p, lists: Dict[str, list], flag: bool):
        self.p = p
        self.state = {SINKS: lists[SINKS], STATICS: lists[STATICS], FLAG: flag}
        self.table = None
        self.table_stmt = None
        self.table_func: Optional[Func] = None
        self.fresh = 0

    # -- helpers
    def unknown(self, f: Func, e, why='is outside the evaluator of the table rebuild'):
        return UnknownIdiom('%s: %s %s' % (f.qual, short(e, 90), why))

    def tracked(self, f: Func, node, env) -> bool:
        for x in ast.walk(node):
            if isinstance(x, ast.Attribute) and x.attr in _TRACKED_ATTRS:
                return True
            if isinstance(x, ast.Name) and x.id in env and env[x.id] is not _OPAQUE:
                return True
            if isinstance(x, ast.Call):
                g = self.p.callee(f, x)
                if isinstance(g, Func) and g is not f and any(isinstance(y, ast.Attribute) and y.attr in _TRACKED_ATTRS for y in ast.walk(g.node)):
                    return True
        return False

    def run(self, f: Func, args=(), depth=0):
        """Evaluate f's body; -> its return value."""
        if depth > 3:
            raise UnknownIdiom('%s: helper chain of the table rebuild is deeper than 3' % f.qual)
        a = f.node.args
        if a.vararg or a.kwarg or a.kwonlyargs or f.is_async:
            raise UnknownIdiom('%s: signature of a function on the table-rebuild path' % f.qual)
        params = f.params()
        env: Dict[str, object] = {}
        self_name = params[0] if (f.cls is not None and params and 'staticmethod' not in f.decorators) else None
        rest = params[1:] if self_name else params
        if len(args) > len(rest) or (depth > 0 and len(args) < len(rest) - n_def):
            raise UnknownIdiom('%s: called with %d argument(s) on the table-rebuild path' % (f.qual, len(args)))
        for i, name in enumerate(rest):
            env[name] = args[i] if i < len(args) else _OPAQUE
        try:
            self.block(f, f.node.body, env, self_name, depth)
        except _Stop as st:
            if st.kind == 'raise':
                raise UnknownIdiom('%s: the table rebuild raises on an evaluated path' % f.qual)
            return st.value
        return None

    # -- statements
    def block(self, f, stmts, env, me, depth):
        for s in stmts:
            self.stmt(f, s, env, me, depth)

    def stmt(self, f, s, env, me, depth):
        tr = self.tracked(f, s, env)
        if isinstance(s, ast.Pass) or (isinstance(s, ast.Expr) and isinstance(s.value, ast.Constant)):
            return
        if isinstance(s, ast.Return):
            raise _Stop('return', self.ev(f, s.value, env, me, depth) if (s.value is not None and tr) else (None if s.value is None else _OPAQUE))
        if isinstance(s, ast.Raise):
            raise _Stop('raise')
        if isinstance(s, ast.If):
            if self.tracked(f, s.test, env):
                c = self.ev(f, s.test, env, me, depth)
                if c is _OPAQUE:
                    raise self.unknown(f, s.test, 'decides a branch of the table rebuild but cannot be evaluated')
                self.block(f, s.body if c else s.orelse, env, me, depth)
            elif tr:
                raise self.unknown(f, s.test, 'guards a statement of the table rebuild and is not a condition on the order option')
            return
        if isinstance(s, (ast.Assign, ast.AnnAssign)):
            if s.value is None:
                return
            targets = s.targets if isinstance(s, ast.Assign) else [s.target]
            if not tr:
                if isinstance(s.value, (ast.List, ast.Tuple)) and not s.value.elts and all(isinstance(t, ast.Name) for t in targets):
                    for t in targets:
                        env[t.id] = [] if isinstance(s.value, ast.List) else ()      # an accumulator the rebuild may fill
                return
            v = self.ev(f, s.value, env, me, depth) if self.tracked(f, s.value, env) else _OPAQUE
            for t in targets:
                self.bind(f, t, v, env, me, s)
            return
        if isinstance(s, ast.AugAssign):
            if not tr:
                return
            if not isinstance(s.op, ast.Add):
                raise self.unknown(f, s)
            cur = self.ev(f, s.target, env, me, depth)
            v = self.ev(f, s.value, env, me, depth)
            if isinstance(cur, list) and isinstance(v, (list, tuple)):
                cur.extend(v)              # in place, like list.__iadd__
                return
            if isinstance(cur, tuple) and isinstance(v, tuple):
                self.bind(f, s.target, cur + v, env, me, s)
                return
            raise self.unknown(f, s)
        if isinstance(s, ast.Expr):
            if tr:
                self.ev(f, s.value, env, me, depth)
            return
        if tr:
            raise self.unknown(f, s, 'is a statement the evaluator of the table rebuild does not read')

    def bind(self, f, t, v, env, me, stmt):
        if isinstance(t, ast.Name):
            env[t.id] = v
            return
        if isinstance(t, ast.Attribute) and isinstance(t.value, ast.Name) and t.value.id == me:
            if t.attr == TABLE:
                if v is _OPAQUE:
                    raise self.unknown(f, stmt, 'stores a value the evaluator cannot compute')
                self.table, self.table_stmt, self.table_func = v, stmt, f
                return
            if t.attr in (SINKS, STATICS):
                if v is _OPAQUE:
                    raise self.unknown(f, stmt, 'stores a value the evaluator cannot compute')
                self.state[t.attr] = v
                return
            if t.attr == FLAG:
                raise self.unknown(f, stmt, 'writes the order option')
            if v is _OPAQUE:
                return
        if isinstance(t, (ast.Tuple, ast.List)) and isinstance(v, (tuple, list)) and len(v) == len(t.elts) and not any(isinstance(x, ast.Starred) for x in t.elts):
            for (x, y) in zip(t.elts, v):
                self.bind(f, x, y, env, me, stmt)
            return
        raise self.unknown(f, stmt, 'has an assignment target the evaluator of the table rebuild does not read')

    # -- expressions
    def ev(self, f, e, env, me, depth):
        if isinstance(e, ast.Constant):
            return e.value
        if isinstance(e, ast.Name):
            if e.id in env:
                v = env[e.id]
                if v is _OPAQUE:
                    raise self.unknown(f, e, 'is not computed from the registration lists')
                return v
            raise self.unknown(f, e, 'is not a local computed from the registration lists')
        if isinstance(e, ast.Attribute):
            if isinstance(e.value, ast.Name) and e.value.id == me and me is not None:
                if e.attr in self.state:
                    return self.state[e.attr]
                if e.attr == TABLE and self.table is not None:
                    return self.table
            raise self.unknown(f, e)
        if isinstance(e, ast.Starred):
            raise self.unknown(f, e)
        if isinstance(e, (ast.Tuple, ast.List)):
            out = []
            for x in e.elts:
                if isinstance(x, ast.Starred):
                    v = self.ev(f, x.value, env, me, depth)
                    if not isinstance(v, (list, tuple)):
                        raise self.unknown(f, x)
                    out.extend(v)
                else:
                    out.append(self.ev(f, x, env, me, depth))
            return tuple(out) if isinstance(e, ast.Tuple) else out
        if isinstance(e, ast.BinOp) and isinstance(e.op, ast.Add):
            a, b = self.ev(f, e.left, env, me, depth), self.ev(f, e.right, env, me, depth)
            if (isinstance(a, list) and isinstance(b, list)) or (isinstance(a, tuple) and isinstance(b, tuple)):
                return a + b
            raise self.unknown(f, e, 'concatenates values of different sequence types')
        if isinstance(e, ast.Subscript):
            v = self.ev(f, e.value, env, me, depth)
            if not isinstance(v, (list, tuple)):
                raise self.unknown(f, e)
            sl = e.slice
            if isinstance(sl, ast.Slice):
                idx = slice(*[None if x is None else self.int_of(f, x, env, me, depth) for x in (sl.lower, sl.upper, sl.step)])
            else:
                idx = self.int_of(f, sl, env, me, depth)
            try:
                return v[idx]
            except (IndexError, ValueError):
                raise self.unknown(f, e, 'indexes outside the symbolic list')
        if isinstance(e, ast.IfExp):
            c = self.ev(f, e.test, env, me, depth)
            return self.ev(f, e.body if c else e.orelse, env, me, depth)
        if isinstance(e, ast.BoolOp):
            v = None
            for x in e.values:
                v = self.ev(f, x, env, me, depth)
                if bool(v) != isinstance(e.op, ast.And):
                    return v
            return v
        if isinstance(e, ast.UnaryOp) and isinstance(e.op, ast.Not):
            return not self.ev(f, e.operand, env, me, depth)
        if isinstance(e, ast.Compare) and len(e.ops) == 1 and isinstance(e.ops[0], (ast.Is, ast.IsNot, ast.Eq, ast.NotEq)):
            a, b = self.ev(f, e.left, env, me, depth), self.ev(f, e.comparators[0], env, me, depth)
            if not all(isinstance(x, bool) or x is None for x in (a, b)):
                raise self.unknown(f, e)
            r = (a is b) if isinstance(e.ops[0], (ast.Is, ast.IsNot)) else (a == b)
            return r if isinstance(e.ops[0], (ast.Is, ast.Eq)) else (not r)
        if isinstance(e, (ast.ListComp, ast.GeneratorExp)):
            if len(e.generators) == 1 and not e.generators[0].ifs and not e.generators[0].is_async and isinstance(e.elt, ast.Name) \
                    and isinstance(e.generators[0].target, ast.Name) and e.elt.id == e.generators[0].target.id:
                v = self.ev(f, e.generators[0].iter, env, me, depth)
                if isinstance(v, (list, tuple)):
                    return list(v)
            raise self.unknown(f, e, 'is a comprehension that filters or transforms the entries')
        if isinstance(e, ast.Call):
            return self.call(f, e, env, me, depth)
        raise self.unknown(f, e)

    def int_of(self, f, e, env, me, depth):
        """a position: an int constant, -constant, len(<tracked list>), +/- of those"""
        if isinstance(e, ast.UnaryOp) and isinstance(e.op, ast.USub):
            return -self.int_of(f, e.operand, env, me, depth)
        if isinstance(e, ast.BinOp) and isinstance(e.op, (ast.Add, ast.Sub)):
            a, b = self.int_of(f, e.left, env, me, depth), self.int_of(f, e.right, env, me, depth)
            return a + b if isinstance(e.op, ast.Add) else a - b
        if isinstance(e, ast.Constant) and isinstance(e.value, int) and not isinstance(e.value, bool):
            return e.value
        if isinstance(e, (ast.Call, ast.Name)):
            v = self.ev(f, e, env, me, depth)
            if isinstance(v, int) and not isinstance(v, bool):
                return v
        raise self.unknown(f, e, 'is not a position the evaluator can compute')

    def call(self, f, c: ast.Call, env, me, depth):
        if c.keywords:
            raise self.unknown(f, c, 'uses keyword arguments')
        fn = c.func
        q = self.p.resolve_expr(f.module, fn, f)
        if isinstance(fn, ast.Attribute) and q is None and fn.attr in ('append', 'insert') and c.args and not isinstance(c.args[-1], ast.Starred) \
                and not self.tracked(f, c.args[-1], env) and not isinstance(self.p.callee(f, c), Func):
            # registration inlined next to the rebuild: the inserted entry is a fresh token of the list it goes into
            recv = self.ev(f, fn.value, env, me, depth)
            if isinstance(recv, list):
                self.fresh += 1
                tok = '%s+%d' % ('s' if recv is self.state[SINKS] else 't' if recv is self.state[STATICS] else 'x', self.fresh)
                if fn.attr == 'append' and len(c.args) == 1:
                    recv.append(tok)
                    return None
                if fn.attr == 'insert' and len(c.args) == 2:
                    recv.insert(self.int_of(f, c.args[0], env, me, depth), tok)
                    return None
            raise self.unknown(f, c, 'is a method call on a registration list the evaluator does not read')
        args: List[object] = []
        for a in c.args:
            if isinstance(a, ast.Starred):
                v = self.ev(f, a.value, env, me, depth)
                if not isinstance(v, (list, tuple)):
                    raise self.unknown(f, c)
                args.extend(v)
            else:
                args.append(self.ev(f, a, env, me, depth))
        if q in ('builtins.list', 'builtins.tuple') and len(args) <= 1:
            if args and not isinstance(args[0], (list, tuple)):
                raise self.unknown(f, c)
            return (list if q.endswith('list') else tuple)(args[0] if args else ())
        if q == 'builtins.reversed' and len(args) == 1 and isinstance(args[0], (list, tuple)):
            return list(reversed(args[0]))          # (an iterator; read once by every form the evaluator accepts)
        if q == 'builtins.bool' and len(args) == 1:
            return bool(args[0])
        if q == 'builtins.len' and len(args) == 1 and isinstance(args[0], (list, tuple)):
            return len(args[0])
        if q in _CHAIN and all(isinstance(a, (list, tuple)) for a in args):
            out: List[object] = []
            for a in args:
                out.extend(a)
            return out
        if isinstance(fn, ast.Attribute):
            g = self.p.callee(f, c)
            if not isinstance(g, Func) and q is None:
                recv = self.ev(f, fn.value, env, me, depth)
                m = fn.attr
                if isinstance(recv, list):
                    if m == 'reverse' and not args:
                        recv.reverse()
                        return None
                    if m == 'extend' and len(args) == 1 and isinstance(args[0], (list, tuple)):
                        recv.extend(args[0])
                        return None
                    if m == 'append' and len(args) == 1:
                        recv.append(args[0])
                        return None
                    if m == 'insert' and len(args) == 2 and isinstance(args[0], int):
                        recv.insert(args[0], args[1])
                        return None
                    if m == 'copy' and not args:
                        return list(recv)
                raise self.unknown(f, c, 'is a method call on a registration list the evaluator does not read')
        g = self.p.callee(f, c)
        if isinstance(g, Func) and g is not f:
            return self.run(g, args, depth + 1)
        raise self.unknown(f, c, 'is a call the evaluator of the table rebuild does not read')


def _rebuilt_table(t: 'Tables', g: Func, flag: bool, sinks: List[str], statics: List[str]):
    """-> (table as a tuple of tokens, store statement, function of the store,
    final sinks list, final static list) of rebuilder g for one option value."""
    ev = RebuildEval(t.p, {SINKS: list(sinks), STATICS: list(statics)}, flag)
    ev.run(g)
    if ev.table is None:
        raise UnknownIdiom('%s: no store of %s on the path evaluated for %s=%s' % (g.qual, TABLE, FLAG[1:], flag))
    if not isinstance(ev.table, (list, tuple)) or not all(isinstance(x, str) for x in ev.table):
        raise UnknownIdiom('%s: %s does not store a sequence of entries' % (g.qual, short(ev.table_stmt, 80)))
    base = set(sinks) | set(statics)
    final = [[x for x in ev.state[k] if x in base] if isinstance(ev.state[k], (list, tuple)) else ev.state[k] for k in (SINKS, STATICS)]
    return tuple(ev.table), ev.table_stmt, ev.table_func, final[0], final[1]


def _mode_tag(stmt_by_mode: Dict[bool, ast.AST], flag: bool) -> str:
    """construct text of the store executed in one mode; tagged with the mode
    when both modes run the same statement."""
    txt = short(stmt_by_mode[flag], 110)
    if stmt_by_mode.get(True) is stmt_by_mode.get(False):
        txt += ' [%s=%s]' % (FLAG[1:], flag)
    return txt


def r2_recency(run):
    """The dispatcher sees the entries of each registration list newest-first,
    for BOTH values of sink_before_static_route.  Decided by abstract
    evaluation: the function that rebuilds `_sink_and_static_routes` is run on
    symbolic lists sinks=[s1,s2], static=[t1,t2] (list concatenation, tuple() /
    list() / reversed(), .reverse(), [::-1], conditional expressions, if/else on
    the option, same-module helpers); with head insertion and a forward scan
    the table must read (s1,s2,t1,t2) / (t1,t2,s1,s2) - per list: the entry the
    insertion site makes the newer one comes first (a tail insertion is fine
    when the rebuild or the scan reverses it back).  The rebuild only reads the
    lists.  Registration (add_sink / add_static_route and their callees) always
    inserts and never removes an entry.
    W: App(sink_before_static_route=False) whose rebuild is
    `routes = sinks + static; routes.reverse()`: add_static_route('/files', A);
    add_static_route('/files/archive', B); GET /files/archive/x is served from A."""
    t = _tables(run)
    d = _dispatch(run)
    p = t.p
    # iteration direction in the dispatcher
    it, loop_rev = _strip_seq(d.loop.iter)
    if not _attr_named(it, TABLE):
        raise UnknownIdiom('%s: loop iterates %s' % (GETR, short(d.loop.iter)))
    for (which, f, n) in list(t.other_writes):
        # element store `self.<list>[i] = entry`: the entry takes over an OLD
        # position instead of being (re)inserted as the newest one -- never a
        # recency-preserving registration, whatever the index
        tg = n.targets[0] if isinstance(n, ast.Assign) and len(n.targets) == 1 else None
        if isinstance(tg, ast.Subscript) and not isinstance(tg.slice, ast.Slice) and isinstance(tg.value, ast.Attribute) \
                and tg.value.attr in (SINKS, STATICS):
            run.fail('registration stores an entry of %s at an existing position instead of inserting it as the newest entry' % which, f, n,
                     runtime_witness='add_sink(s0, "/a"); add_sink(s1, "/a/b"); add_sink(s2, "/a"); GET /a/b is answered by s1 although s2 is the most recently added matching sink')
            t.other_writes.remove((which, f, n))
    _registration_never_removes(run, t)
    for (which, f, n) in t.other_writes:
        if f.qual in t.rebuilders:
            continue        # read by the abstract evaluation of the rebuild below (the lists must come out unchanged)
        raise UnknownIdiom('%s: write to %s of a form the order-polarity lattice does not cover: %s' % (f.qual, which, short(n)))
    for (f, n) in t.table_other:
        raise UnknownIdiom('%s: in-place mutation of %s: %s' % (f.qual, TABLE, short(n)))
    # The rebuild is EVALUATED on symbolic lists [newer, older] (in the order the
    # insertion site leaves them) for both values of the option; the dispatcher
    # must see the newer entry of each list first.
    for g in [t.rebuilders[q] for q in sorted(t.rebuilders)]:
        plain = {}
        for flag in (True, False):
            table, stmt, sf, fs, ft = _rebuilt_table(t, g, flag, ['s1', 's2'], ['t1', 't2'])
            plain[flag] = (table, stmt, sf)
            run.check(fs == ['s1', 's2'] and ft == ['t1', 't2'], 'the rebuild of the combined table only reads the registration lists (it leaves their order and content as they are)',
                      g, '%s modifies %s' % (g.node.name, SINKS if fs != ['s1', 's2'] else STATICS) if (fs != ['s1', 's2'] or ft != ['t1', 't2']) else g.node.name,
                      where=g.loc(), witness=['%s=%s: %s [s1, s2] -> %s, %s [t1, t2] -> %s' % (FLAG[1:], flag, SINKS, fs, STATICS, ft)],
                      runtime_witness='every second add_sink()/add_static_route() flips the order of the entries registered so far')
        stmts = {flag: plain[flag][1] for flag in plain}
        for (which, pol, f, call) in t.insertions:
            if pol == 'other':
                continue
            base = ['s1', 's2'] if which == SINKS else ['t1', 't2']
            newer, older = base
            for flag in (True, False):
                table, stmt, sf = plain[flag]
                mode = '%s=%s' % (FLAG[1:], flag)
                if table.count(newer) != 1 or table.count(older) != 1:
                    run.fail('the combined table holds every entry of %s exactly once (%s)' % (which, mode), sf, '%s [%s]' % (_mode_tag(stmts, flag), which),
                             where=sf.loc(stmt), witness=['%s: %s = [%s, %s] -> table %s' % (mode, which, newer, older, list(table))],
                             runtime_witness='a registered sink / static route never answers, or answers in place of a newer one')
                    continue
                keeps = table.index(newer) < table.index(older)          # the rebuild keeps the list's own order
                flips = (0 if pol == 'head' else 1) + (0 if keeps else 1) + (1 if loop_rev else 0)
                what = ('entries of %s are seen newest-first by the dispatcher with %s (head insertion, or tail insertion compensated where consumed)'
                        % (which, mode))
                wit = ['inserted by %s: %s (%s)' % (f.qual, short(call, 80), pol),
                       'rebuilt by %s with %s: %s = [newer, older] -> table %s' % (g.qual, mode, which, ['newer' if x == newer else 'older' if x == older else x for x in table]),
                       'scanned by: for ... in %s' % short(d.loop.iter)]
                rw = 'add_sink(a, "/x"); add_sink(b, "/x"): a request to /x is answered by a (the older one)'
                if flips % 2 == 0:
                    run.ok(what, f.loc(call), call)
                elif pol != 'head':
                    run.fail(what, f, call, witness=wit, runtime_witness=rw)
                elif not keeps:
                    run.fail(what, sf, '%s [%s]' % (_mode_tag(stmts, flag), which), where=sf.loc(stmt), witness=wit,
                             runtime_witness='App(%s): add_static_route("/files", A); add_static_route("/files/archive", B); GET /files/archive/x is served from A '
                                             '(the older route is matched first)' % mode)
                else:
                    run.fail(what, d.f, 'for %s in %s' % (short(d.loop.target), short(d.loop.iter)), where=d.f.loc(d.loop), witness=wit, runtime_witness=rw)
    for (which, pol, f, call) in t.insertions:
        if pol == 'other':
            run.fail('insertion into %s is neither at the head nor at the tail' % which, f, call,
                     runtime_witness='a newer sink/static route ranked below an older one with an overlapping prefix')
    # shape of the table entries: (matcher, object, is_sink) with the constant flag
    for (which, pol, f, call) in t.insertions:
        item = call.args[-1] if isinstance(call, ast.Call) and call.args else None
        if item is None and not isinstance(call, ast.Call):
            v = call.value
            if isinstance(v, ast.List) and any(isinstance(x, ast.Starred) for x in v.elts):
                item = [x for x in v.elts if not isinstance(x, ast.Starred)][0]
            else:
                lst = v if isinstance(v, (ast.List, ast.Tuple)) else (v.left if isinstance(v.left, (ast.List, ast.Tuple)) else v.right)
                item = lst.elts[0] if lst.elts else None
        if isinstance(item, ast.Name):
            ds = [x.value for x in walk_self(f.node) if isinstance(x, ast.Assign) and any(isinstance(tg, ast.Name) and tg.id == item.id for tg in x.targets)]
            if len(ds) == 1:
                item = ds[0]
        if not (isinstance(item, ast.Tuple) and len(item.elts) == 3):
            raise UnknownIdiom('%s: table entry %s is not a 3-tuple' % (f.qual, short(item) if item is not None else '?'))
        flag = item.elts[2]
        run.check(isinstance(flag, ast.Constant) and flag.value is (which == SINKS), 'entries of %s carry is_sink == %s' % (which, which == SINKS), f, call,
                  runtime_witness='a static route called with regex groups / a sink called without its named groups')
    _registration_always_inserts(run, t)


REGISTRARS = (('add_sink', SINKS), ('add_static_route', STATICS))


def _registration_always_inserts(run, t: 'Tables'):
    """Every NORMAL return of the public registration functions
    (`App.add_sink`, `App.add_static_route`, and any override in a subclass)
    has passed through the insertion of the new entry into its list - directly
    or through a callee all of whose normal paths insert (must-pass-through on
    the CFG from entry to the normal exit).  A registration that is skipped
    because of what the list already holds (duplicate suppression, "already
    registered" shortcuts) leaves the re-registered entry at its OLD rank, so it
    is not the most recently added matching one.
    W: add_static_route('/a', d1); add_static_route('/a/b', d2);
    add_static_route('/a', d1); GET /a/b/x.txt is still served from d2."""
    p = t.p
    memo: Dict[Tuple[str, str], Optional[bool]] = {}

    def ins_nodes(f: Func, which: str, stack: Tuple[str, ...]):
        f = _registry_view(p, f)    # (the Func the table census recorded the insertions under)
        cfg = cfg_of(f, p)
        run.use_cfg(cfg)
        direct = [call for (w, _pol, g, call) in t.insertions if g is f and w == which]
        out = set()
        for n in cfg.live_nodes():
            if any(n.ast is c or any(x is c for x in n.walk()) for c in direct):
                out.add(n.id)
                continue
            for c in n.calls():
                g = p.callee(f, c)
                if isinstance(g, Func) and g is not f and g.qual not in stack and always(g, which, stack + (f.qual,)):
                    out.add(n.id)
                    break
        return cfg, out

    def always(g: Func, which: str, stack: Tuple[str, ...]) -> bool:
        key = (g.qual, which)
        if key not in memo:
            memo[key] = False       # (recursion: a cycle does not insert by itself)
            cfg, ins = ins_nodes(g, which, stack)
            memo[key] = bool(ins) and flow.find_path(cfg, [cfg.entry], [cfg.exit], avoid_nodes=ins) is None
        return bool(memo[key])

    for (name, which) in REGISTRARS:
        base = p.func('%s.%s' % (APP, name))
        funcs = [base] + [p.classes[cq].methods[name] for cq in sorted(p.subclasses(APP))
                          if cq != APP and name in p.classes[cq].methods]
        for f in funcs:
            cfg, ins = ins_nodes(f, which, ())
            if not ins:
                raise UnknownIdiom('%s neither inserts into %s nor calls a function that always does' % (f.qual, which))
            path = flow.find_path(cfg, [cfg.entry], [cfg.exit], avoid_nodes=ins)
            cons = '%s: every normal return has inserted the entry' % name
            if path:
                tests = [i for i in path if cfg.node(i).kind == 'test']
                last = cfg.node(path[-2]) if len(path) > 1 else None
                if tests:
                    cons = cfg.node(tests[-1]).ast
                elif last is not None and last.kind == 'stmt' and isinstance(last.ast, ast.Return):
                    cons = last.ast
            run.check(path is None, 'every normal return of %s() has inserted the new entry into %s (no early return or skip that depends on '
                      'what is already registered): a re-registration moves to the head' % (name, which), f, cons, where=f.loc(),
                      witness=flow.describe_path(cfg, path) if path else None,
                      runtime_witness="add_static_route('/a', d1); add_static_route('/a/b', d2); add_static_route('/a', d1): GET /a/b/x.txt is "
                                      'still served from d2 (the repeated registration kept its old rank)')


REMOVERS = {'remove', 'pop', 'clear', '__delitem__'}


def _registration_functions(t: 'Tables') -> Dict[str, Func]:
    """add_sink / add_static_route (and overrides in subclasses of App) plus
    the package functions they call, transitively (depth <= 3)."""
    p = t.p
    out: Dict[str, Func] = {}
    work: List[Tuple[Func, int]] = []
    for (name, _which) in REGISTRARS:
        base = p.func('%s.%s' % (APP, name))
        work.append((base, 0))
        for cq in sorted(p.subclasses(APP)):
            if cq != APP and name in p.classes[cq].methods:
                work.append((p.classes[cq].methods[name], 0))
    while work:
        f, depth = work.pop()
        if f.qual in out:
            continue
        out[f.qual] = f
        if depth >= 3:
            continue
        for c in walk_no_nested(f.node):
            if isinstance(c, ast.Call):
                g = p.callee(f, c)
                if isinstance(g, Func) and g.qual not in out and g.module is f.module:
                    work.append((g, depth + 1))
    return out


def _filters_list(e, which: str) -> Optional[ast.AST]:
    """The sub-expression of e that yields a SUBSET of self.<which>: a
    comprehension over it with an `if`, filter() on it, a slice of it with a
    bound.  None when there is none."""
    for x in ast.walk(e):
        if isinstance(x, (ast.ListComp, ast.GeneratorExp, ast.SetComp)):
            for gen in x.generators:
                if gen.ifs and any(_attr_named(y, which) for y in ast.walk(gen.iter)):
                    return x
        elif isinstance(x, ast.Call) and isinstance(x.func, ast.Name) and x.func.id == 'filter' and len(x.args) == 2 \
                and any(_attr_named(y, which) for y in ast.walk(x.args[1])):
            return x
        elif isinstance(x, ast.Call) and dotted(x.func) in ('itertools.filterfalse', 'filterfalse', 'itertools.takewhile', 'itertools.dropwhile', 'itertools.islice') \
                and any(_attr_named(y, which) for a in x.args for y in ast.walk(a)):
            return x
        elif isinstance(x, ast.Subscript) and isinstance(x.slice, ast.Slice) and _attr_named(x.value, which) and isinstance(x.ctx, ast.Load) \
                and (x.slice.lower is not None or x.slice.upper is not None or
                     (x.slice.step is not None and not (isinstance(x.slice.step, ast.UnaryOp) or (isinstance(x.slice.step, ast.Constant) and x.slice.step.value in (1, None))))):
            return x
    return None


def _registration_never_removes(run, t: 'Tables'):
    """Registration only ADDS: add_sink() / add_static_route() (and what they
    call) never remove an existing entry of `_sinks` / `_static_routes` - no
    remove()/pop()/clear()/del, no rebuild of the list through a filtering
    comprehension, filter() or a bounded slice.  "Most recently added MATCHING
    entry" quantifies over every entry ever registered: an older entry is still
    the answer for each path that no newer entry matches, and no key short of
    the matcher's whole match set (prefix text, pattern text, ...) tells that
    there is no such path.
    W: add_static_route('/s', d0, fallback_filename='index.html');
    add_static_route('/s', d1) purges the first route "with the same prefix";
    GET /s (matched only by a route WITH a fallback file) -> 404 instead of
    d0/index.html."""
    regs = _registration_functions(t)
    rw = ("add_static_route('/s', d0, fallback_filename='index.html'); add_static_route('/s', d1): GET /s is matched only by the older route "
          '(bare prefix + fallback file); once it was purged the request falls through to a sink / 404')
    what = 'registration never removes an existing entry of %s (the list only grows): an older entry still answers every path the newer ones do not match'
    bad_lists: Set[str] = set()
    for (which, f, n) in list(t.other_writes):
        if which == TABLE or f.qual not in regs:
            continue
        inserted = {short(c.args[-1], 200) for (w, _pol, g, c) in t.insertions if g is f and w == which and isinstance(c, ast.Call) and c.args}
        removed: Optional[ast.AST] = None
        if isinstance(n, ast.Delete):
            removed = n
        elif isinstance(n, ast.Call) and n.func.attr in REMOVERS:
            if n.func.attr == 'remove' and len(n.args) == 1 and short(n.args[0], 200) in inserted:
                raise UnknownIdiom('%s: %s removes an entry EQUAL to the one it inserts (re-ranking of an identical entry); not decided' % (f.qual, short(n)))
            removed = n
        elif isinstance(n, (ast.Assign, ast.AnnAssign, ast.AugAssign)) and n.value is not None:
            sub = _filters_list(n.value, which)
            if sub is not None:
                conds = [c for gen in getattr(sub, 'generators', []) for c in gen.ifs]
                if len(conds) == 1 and isinstance(conds[0], ast.Compare) and len(conds[0].ops) == 1 and isinstance(conds[0].ops[0], (ast.NotEq, ast.IsNot)) \
                        and isinstance(conds[0].left, ast.Name) and short(conds[0].comparators[0], 200) in inserted:
                    raise UnknownIdiom('%s: %s drops entries EQUAL to the one it inserts (re-ranking of an identical entry); not decided' % (f.qual, short(n)))
                removed = n
            else:
                tg = (n.targets[0] if isinstance(n, ast.Assign) else n.target)
                if isinstance(tg, ast.Subscript) and isinstance(tg.slice, ast.Slice) and isinstance(n.value, (ast.List, ast.Tuple)) and not n.value.elts:
                    removed = n      # self.L[a:b] = []
        if removed is None:
            continue
        run.fail(what % which, f, n, where=f.loc(n), runtime_witness=rw,
                 witness=['%s is on the registration path of %s' % (f.qual, ' / '.join(name for (name, _w) in REGISTRARS))])
        t.other_writes.remove((which, f, n))
        bad_lists.add(which)
    for (name, which) in REGISTRARS:
        if which not in bad_lists:
            run.ok('%s() and the functions it calls hold no remove / pop / clear / del / filtering rebuild of %s' % (name, which),
                   t.p.func('%s.%s' % (APP, name)).loc(), '%s: no removal from %s' % (name, which))


def r3_refresh(run):
    t = _tables(run)
    p = t.p
    # every mutation is followed by the rebuild on all normal paths
    for (which, pol, f, call) in t.insertions:
        cfg = cfg_of(f, p)
        run.use_cfg(cfg)
        nodes = [n.id for n in cfg.live_nodes() if any(x is call for x in n.walk()) or n.ast is call]
        src = single(nodes, 'node of %s' % short(call, 60), f.qual)
        refresh = [n.id for n in cfg.live_nodes() for c in n.calls()
                   if isinstance(p.callee(f, c), Func) and p.callee(f, c).qual in t.rebuilders]
        if f.qual in t.rebuilders:
            refresh += [n.id for n in cfg.live_nodes() if n.kind == 'stmt' and any(n.ast is s for (g, s, v) in t.rebuild_stores if g is f)]
        path = flow.find_path(cfg, [y for (y, l) in cfg.succ[src] if l != 'exc'], [cfg.exit], avoid_nodes=refresh, edge_filter=flow.no_exc)
        run.check(path is None, 'every change of %s is followed by the rebuild of the combined table before the function returns' % which, f, call,
                  witness=flow.describe_path(cfg, path) if path else None,
                  runtime_witness='add_sink()/add_static_route() has no effect on dispatch (stale combined table)')
    # initialisation: empty lists go with an empty table
    for (which, f, stmt) in t.empty_inits:
        cfg = cfg_of(f, p)
        run.use_cfg(cfg)
        src = single(cfg.nodes_for(stmt), 'node', f.qual)
        good = [n.id for n in cfg.live_nodes() for c in n.calls() if isinstance(p.callee(f, c), Func) and p.callee(f, c).qual in t.rebuilders]
        for (g, s, v) in t.rebuild_stores:
            if g is f and isinstance(v, (ast.Tuple, ast.List)) and not v.elts:
                good += cfg.nodes_for(s)
        only_empty = not any(i[2] is f for i in t.insertions)
        before = flow.dominated_by_nodes(cfg, cfg.exit, good) if good else False
        run.check(only_empty and before, 'the lists start empty together with an empty combined table', f, stmt,
                  runtime_witness='a fresh App dispatching to stale fallback entries')
    # order flag: the rebuild is EVALUATED on symbolic lists for both values of
    # the option; as seen by the dispatcher the table must list every entry once,
    # the sinks first when the option is true and the static routes first when false
    d = _dispatch(run)
    it, loop_rev = _strip_seq(d.loop.iter)
    if not _attr_named(it, TABLE):
        raise UnknownIdiom('%s: loop iterates %s' % (GETR, short(d.loop.iter)))
    for g in [t.rebuilders[q] for q in sorted(t.rebuilders)]:
        res = {flag: _rebuilt_table(t, g, flag, ['s1', 's2'], ['t1', 't2']) for flag in (True, False)}
        stmts = {flag: res[flag][1] for flag in res}
        for flag in (True, False):
            table, stmt, sf = res[flag][:3]
            seen = tuple(reversed(table)) if loop_rev else table
            groups = ''.join(x[0] for x in seen)
            mode = '%s=%s' % (FLAG[1:], flag)
            wit = ['%s: %s = [s1, s2], %s = [t1, t2] -> the dispatcher scans %s' % (mode, SINKS, STATICS, list(seen))]
            run.check(sorted(x for x in seen if '+' not in x) == ['s1', 's2', 't1', 't2'], 'with %s the combined table holds every registered sink and static route exactly once' % mode,
                      sf, '%s [complete]' % _mode_tag(stmts, flag), where=sf.loc(stmt), witness=wit,
                      runtime_witness='a registered sink / static route never answers')
            want = 'st' if flag else 'ts'
            order = ''.join(c for i, c in enumerate(groups) if i == 0 or groups[i - 1] != c)
            # (a group that is missing altogether is the completeness obligation's finding)
            run.check(order == want or len(order) < 2,
                      'with %s %s the combined table lists %s first' % (FLAG[1:], 'true' if flag else 'false', 'sinks' if flag else 'static routes'),
                      sf, _mode_tag(stmts, flag), where=sf.loc(stmt), witness=wit,
                      runtime_witness='sink_before_static_route=%s: an overlapping %s answers instead' % (flag, 'static route' if flag else 'sink'))
    # the flag is the constructor argument
    init = p.func(APP + '.__init__')
    st = [n for n in walk_self(init.node) if isinstance(n, ast.Assign) and any(is_self_attr(x, FLAG) for x in n.targets)]
    if not st:
        raise AnchorError('App.__init__ does not store %s' % FLAG)
    for s in st:
        run.check(isinstance(s.value, ast.Name) and s.value.id == FLAG[1:] and FLAG[1:] in init.params(),
                  'the order flag is the sink_before_static_route constructor argument', init, s)
    writers = [(f, n) for f in p.all_functions() for n in walk_no_nested(f.node)
               if isinstance(n, ast.Attribute) and n.attr == FLAG and isinstance(n.ctx, ast.Store) and f is not init]
    for (f, n) in writers:
        run.fail('the order flag is written outside App.__init__ without a rebuild', f, n)


# ---------------------------------------------------------------------------
# R4 Allow computation
# ---------------------------------------------------------------------------

def _header_writes(p, g: Func, resp: str, c: ast.Call) -> Optional[List[Tuple[str, ast.AST, ast.AST]]]:
    """What a call on the response object writes: [(kind, header name expression, value expression)] with kind
    'set_header' / 'append_header'; `resp.set_headers(<dict display | list / tuple display of pairs>)` is one
    set_header per item, in order.  [] for a call that writes no header; None for a set_headers() whose argument is not
    such a display (what it writes is not read)."""
    fn = dotted(c.func)
    if fn in (resp + '.set_header', resp + '.append_header') and len(c.args) == 2 and not c.keywords:
        return [(c.func.attr, c.args[0], c.args[1])]
    if fn == resp + '.set_headers':
        if len(c.args) != 1 or c.keywords:
            return None
        a = c.args[0]
        if isinstance(a, ast.Dict) and all(k is not None for k in a.keys):
            return [('set_header', k, v) for k, v in zip(a.keys, a.values)]
        if isinstance(a, (ast.List, ast.Tuple)) and all(isinstance(x, (ast.Tuple, ast.List)) and len(x.elts) == 2 for x in a.elts):
            return [('set_header', x.elts[0], x.elts[1]) for x in a.elts]
        return None
    return []


def _closure_language(run, g: Func, param0: str, joined: Set[str]):
    p = run.project
    cfg = cfg_of(g, p)
    run.use_cfg(cfg)
    gp = g.params()
    resp = gp[1] if len(gp) > 1 else None

    def norm(e):
        s = short(e)
        return s

    def lab(n):
        out = []
        if n.kind == 'stmt' and isinstance(n.ast, ast.Raise) and n.ast.exc is not None:
            e = n.ast.exc
            fn = e.func if isinstance(e, ast.Call) else e
            q = p.resolve_expr(g.module, fn, g) or short(fn)
            args = ','.join(norm(a) for a in e.args) if isinstance(e, ast.Call) else ''
            out.append('raise %s(%s)' % (q, args))
            return out
        if n.kind == 'stmt' and isinstance(n.ast, ast.Assign) and resp and any(dotted(t) == resp + '.status' for t in n.ast.targets):
            v = p.fold(g.module, n.ast.value, None, g)
            out.append('status=%s' % (v if v is not UNKNOWN else short(n.ast.value)))
        for c in n.calls():
            hw = _header_writes(p, g, resp, c) if resp else []
            if hw is None:
                raise UnknownIdiom('%s: headers written by %s are not read' % (g.qual, short(c, 60)))
            for (kind, ke, ve) in hw:
                k = p.fold(g.module, ke, None, g)
                out.append('%s(%s,%s)' % (kind, k.lower() if isinstance(k, str) else short(ke), norm(ve)))
        return out

    # (flow.project indexes the exit nodes unconditionally: only ask for the ones that are live)
    nfa = flow.project(cfg, lab, accept_exit=cfg.exit in cfg.reachable_ids,
                       accept_xexit='!raise' if cfg.xexit in cfg.reachable_ids else None)
    return flow.determinise(nfa), cfg


_MATERIALISE = ('list', 'tuple', 'sorted')
_ONE_SHOT = ('iter', 'reversed')
_ONE_SHOT_OPAQUE = ('map', 'filter', 'zip', 'enumerate')


def _allow_value_shape(v, lst: str):
    """(kind, comprehension|None, role) of a value bound to the Allow list:
    kind 'seq' (list comprehension, list()/tuple()/sorted() of anything, a
    slice copy) or 'iter' (generator expression, iter()/reversed()/map()/
    filter()/...: drained by the first consumer); role 'primary' (a
    comprehension, possibly wrapped: the content), 'copy' (re-wrapping of the
    list variable itself) or 'opaque' (content not read).  None: not read."""
    if not isinstance(v, ast.expr):
        return None
    if isinstance(v, ast.ListComp):
        return ('seq', v, 'primary')
    if isinstance(v, ast.GeneratorExp):
        return ('iter', v, 'primary')
    if isinstance(v, ast.Subscript) and isinstance(v.value, ast.Name) and v.value.id == lst and isinstance(v.slice, ast.Slice) \
            and v.slice.lower is None and v.slice.upper is None and v.slice.step is None:
        return ('seq', None, 'copy')
    if isinstance(v, ast.Call) and isinstance(v.func, ast.Attribute) and v.func.attr == 'copy' and not v.args and not v.keywords \
            and isinstance(v.func.value, ast.Name) and v.func.value.id == lst:
        return ('seq', None, 'copy')
    if isinstance(v, ast.Call) and isinstance(v.func, ast.Name) and not any(isinstance(a, ast.Starred) for a in v.args):
        fn = v.func.id
        if fn in _ONE_SHOT_OPAQUE:
            return ('iter', None, 'opaque')
        if fn in _MATERIALISE + _ONE_SHOT and len(v.args) == 1 and (not v.keywords or fn == 'sorted' and all(k.arg == 'reverse' for k in v.keywords)):
            kind = 'seq' if fn in _MATERIALISE else 'iter'
            a = v.args[0]
            if isinstance(a, ast.Name) and a.id == lst:
                return (kind, None, 'copy')
            inner = _allow_value_shape(a, lst)
            if inner is None:
                return None
            return (kind, inner[1], inner[2])
    return None


def _returned_closures(fac: Func) -> List[Func]:
    """The nested defs a responder factory hands back (`return <name>`); a nested def the closures merely call is a
    helper of theirs (read in place, see inlined_view), not a responder."""
    names = {n.value.id for n in walk_self(fac.node) if isinstance(n, ast.Return) and isinstance(n.value, ast.Name)}
    return [g for k, g in fac.nested.items() if g.node.name in names]


def _unread_escape(p, g: Func, names: List[str], what: str):
    """The closure `g` (already seen through its plain helpers) hands one of `names` to a function of the analysed tree
    that was not read in place: what happens to it there is not known to the rule (exit 2, never a verdict)."""
    for c in walk_self(g.node):
        if not isinstance(c, ast.Call):
            continue
        handed = [a for a in list(c.args) + [k.value for k in c.keywords] if isinstance(a, ast.Name) and a.id in names]
        if handed and isinstance(p.callee(g, c), Func):
            raise UnknownIdiom('%s hands %s to %s, which is not a helper the rule reads in place' % (g.qual, what, short(c, 60)))


def _factory_snapshots_param(fna: Func) -> bool:
    """The 405 factory takes a list()/tuple()/sorted() copy of its first
    parameter once in its own body and no closure mentions the parameter
    itself: whatever iterable it is handed is read exactly once."""
    prm = fna.params()
    if not prm:
        return False
    prm = prm[0]
    if any(isinstance(x, ast.Name) and x.id == prm for g in fna.nested.values() for x in ast.walk(g.node)):
        return False
    uses = [x for x in walk_self(fna.node) if isinstance(x, ast.Name) and x.id == prm and isinstance(x.ctx, ast.Load)]
    snaps = [n for n in walk_self(fna.node) if isinstance(n, ast.Assign) and isinstance(n.value, ast.Call) and isinstance(n.value.func, ast.Name)
             and n.value.func.id in _MATERIALISE and len(n.value.args) == 1 and n.value.args[0] in uses]
    return len(uses) == 1 and len(snaps) == 1


def r4_allow(run):
    p = run.project
    f = aliased_view(p, p.func(UTIL + '.set_default_responders'))      # (local aliases of attribute chains written out; a helper building the list is read below)
    cfg = cfg_of(f, p)
    run.use_cfg(cfg)
    params = f.params()
    if not params:
        raise AnchorError('set_default_responders signature')
    mm = params[0]
    opt_q, na_q = RESP + '.create_default_options', RESP + '.create_method_not_allowed'
    fopt, fna = p.func(opt_q), p.func(na_q)

    def call_nodes(q):
        out = []
        for n in cfg.live_nodes():
            for c in n.calls():
                tq = p.callee(f, c)
                if isinstance(tq, Func) and tq.qual == q:
                    out.append((n, c))
        return out

    (on, ocall) = single(call_nodes(opt_q), 'call of create_default_options', f.qual)
    (nn, ncall) = single(call_nodes(na_q), 'call of create_method_not_allowed', f.qual)
    if not ocall.args or not isinstance(ocall.args[0], ast.Name) or not ncall.args or not isinstance(ncall.args[0], ast.Name):
        raise UnknownIdiom('%s: factories are not called with a local list' % f.qual)
    lst = ocall.args[0].id
    # every definition of the list: a comprehension over the method map ('primary', the content), or a copy / re-wrapping of the
    # list itself (`lst = list(lst)`); each one is a materialised sequence or a one-shot iterator
    ldefs = {i: v for i, v in _defs_of(cfg, lst).items() if not isinstance(v, ast.AugAssign)}
    if not ldefs:
        raise AnchorError('%s: no definition of the Allow list %s' % (f.qual, lst))
    shapes = {}
    ctx_of: Dict[int, Tuple[str, Func, ast.AST]] = {}     # def -> (name of the method map, function the expression lives in, expression)
    for i, v in ldefs.items():
        ctx_of[i] = (mm, f, v)
        sh = _allow_value_shape(v, lst)
        if sh is None and isinstance(v, ast.Call) and not v.keywords and len(v.args) == 1 and isinstance(v.args[0], ast.Name) and v.args[0].id == mm:
            # a package-level helper handed the method map whose body is one `return <expr>`: its summary is inlined
            h = p.callee(f, v)
            if isinstance(h, Func) and h.cls is None and h.parent is None and not h.is_async and not h.decorators and len(h.params()) == 1:
                body = [x for x in h.node.body if not (isinstance(x, ast.Expr) and isinstance(x.value, ast.Constant))]
                if len(body) == 1 and isinstance(body[0], ast.Return) and body[0].value is not None:
                    sh = _allow_value_shape(body[0].value, None)
                    ctx_of[i] = (h.params()[0], h, body[0].value)
        if sh is None:
            raise UnknownIdiom('%s: Allow list defined by %s' % (f.qual, short(v, 80)))
        shapes[i] = sh
    primaries = [(i, shapes[i][1], ctx_of[i][2]) for i in sorted(shapes) if shapes[i][2] == 'primary']
    # the 405 closures keep the value for the lifetime of the route and read it on every request: it has to be a sequence
    # (unless the factory itself takes a list()/tuple() snapshot once and the closures read only that)
    reach = reaching_defs(cfg, ldefs, {cfg.entry: frozenset()}).get(nn.id, frozenset())
    if not reach:
        raise UnknownIdiom('%s: no definition of %s reaches %s' % (f.qual, lst, short(ncall, 60)))
    fac_snapshot = _factory_snapshots_param(fna)
    for i in sorted(reach):
        kind = shapes[i][0]
        path = None
        if kind != 'seq' and not fac_snapshot:
            path = flow.find_path(cfg, [y for (y, l) in cfg.succ[i] if l != 'exc'], [nn.id], avoid_nodes=[j for j in ldefs if j != nn.id], edge_filter=flow.no_exc)
        run.check(kind == 'seq' or fac_snapshot,
                  'the method list handed to create_method_not_allowed, which its closures keep and read on every 405 of the route, is a materialised '
                  'sequence on every path (list / tuple / sorted(...)), never a generator expression or another one-shot iterator', f, ldefs[i],
                  where=f.loc(cfg.node(i).ast), witness=flow.describe_path(cfg, [i] + path) if path else None,
                  runtime_witness='a resource with its own on_options: the first 405 of the route lists the methods, every later one answers "Allow: " '
                                  '(the first \', \'.join() drained the generator the closure holds)')
    if not primaries:
        raise UnknownIdiom('%s: the content of the Allow list is not a comprehension over the method map: %s' % (
            f.qual, '; '.join(short(v, 60) for v in ldefs.values())))
    meta = p.fold(p.module('falcon.constants'), ast.Name('_META_METHODS', ast.Load()))
    if meta is UNKNOWN or not meta:
        raise AnchorError('falcon.constants._META_METHODS does not fold to a non-empty list')
    for (_i, comp, lval) in primaries:
        cmm, cf = ctx_of[_i][0], ctx_of[_i][1]
        if len(comp.generators) != 1:
            raise UnknownIdiom('%s: Allow list is not a single comprehension: %s' % (f.qual, short(lval, 80)))
        gen = comp.generators[0]
        src_ok = any(isinstance(x, ast.Name) and x.id == cmm for x in ast.walk(gen.iter))
        elt_ok = isinstance(comp.elt, ast.Name) and isinstance(gen.target, ast.Name) and comp.elt.id == gen.target.id
        run.check(src_ok and elt_ok, 'the Allow list enumerates the keys of the method map (the implemented methods), unchanged', cf, lval)
        filt = False
        extra = []
        for cond in gen.ifs:
            if isinstance(cond, ast.Compare) and len(cond.ops) == 1 and isinstance(cond.ops[0], ast.NotIn) and isinstance(cond.left, ast.Name) and cond.left.id == gen.target.id:
                v = p.fold(cf.module, cond.comparators[0], None, cf)
                if v is not UNKNOWN and set(v) == set(meta):
                    filt = True
                    continue
            extra.append(cond)
        run.check(filt, 'meta methods (WEBSOCKET) are filtered out of the Allow list', cf, lval,
                  runtime_witness='Allow: ..., WEBSOCKET on a 405 / OPTIONS response')
        run.check(not extra, 'no other method is filtered out of the Allow list', cf, extra[0] if extra else lval)
    # path that installs the automatic OPTIONS responder

    def is_options(e) -> bool:
        # the literal, or a module-level / class-level constant holding it (`_OPTIONS = 'OPTIONS'`)
        if isinstance(e, ast.Constant):
            return e.value == 'OPTIONS'
        return isinstance(e, (ast.Name, ast.Attribute)) and p.fold(f.module, e, None, f) == 'OPTIONS'

    def is_opt_missing(e):
        return (isinstance(e, ast.Compare) and len(e.ops) == 1 and isinstance(e.ops[0], ast.NotIn) and is_options(e.left)
                and isinstance(e.comparators[0], ast.Name) and e.comparators[0].id == mm)

    def is_opt_present(e):
        return (isinstance(e, ast.Compare) and len(e.ops) == 1 and isinstance(e.ops[0], ast.In) and is_options(e.left)
                and isinstance(e.comparators[0], ast.Name) and e.comparators[0].id == mm)

    missing = _truth_edges(cfg, is_opt_missing, True, neg=is_opt_present)
    if not missing:
        raise AnchorError('%s: no test for a missing OPTIONS responder' % f.qual)
    run.check(on.id not in flow.reachable(cfg, [cfg.entry], avoid_edges=missing), 'the automatic OPTIONS responder is created only when the resource has none',
              f, ocall)
    appends = [n for n in cfg.live_nodes() for c in n.calls()
               if isinstance(c.func, ast.Attribute) and c.func.attr in ('append', 'insert', 'extend', '__iadd__') and isinstance(c.func.value, ast.Name) and c.func.value.id == lst]
    appends += [n for n in cfg.live_nodes() if n.kind == 'stmt' and isinstance(n.ast, ast.AugAssign) and isinstance(n.ast.target, ast.Name) and n.ast.target.id == lst]

    def adds_options(n):
        for c in n.calls():
            if isinstance(c.func, ast.Attribute) and c.func.attr == 'append' and len(c.args) == 1 and is_options(c.args[0]):
                return True
        if n.kind == 'stmt' and isinstance(n.ast, ast.AugAssign) and isinstance(n.ast.value, (ast.List, ast.Tuple)) and len(n.ast.value.elts) == 1 \
                and is_options(n.ast.value.elts[0]):
            return True
        return False

    opt_appends = [n for n in appends if adds_options(n)]
    for n in appends:
        if n not in opt_appends:
            raise UnknownIdiom('%s: the Allow list is modified by %s' % (f.qual, n.text()))
    # (every modification of the list is enumerated above, so "no append" is exact: OPTIONS is then missing from the 405 list)
    # (1) the options responder is created before OPTIONS is added (its Allow excludes OPTIONS) ...
    path = flow.find_path(cfg, [x.id for x in opt_appends], [on.id], edge_filter=flow.no_exc)
    run.check(path is None, 'the automatic OPTIONS responder is created before "OPTIONS" is added to the list, so its Allow header lists exactly the implemented methods',
              f, ocall, witness=flow.describe_path(cfg, path) if path else None,
              runtime_witness='OPTIONS on a GET-only resource answers Allow: GET, OPTIONS')
    # ... and snapshots the list eagerly
    oparams = fopt.params()
    if not oparams:
        raise AnchorError('create_default_options signature')
    inner_refs = [g for g in fopt.nested.values() if any(isinstance(x, ast.Name) and x.id == oparams[0] for x in ast.walk(g.node))]
    joined = {t.id for n in walk_self(fopt.node) if isinstance(n, ast.Assign) and len(n.targets) == 1 and isinstance(n.targets[0], ast.Name)
              for t in [n.targets[0]]
              if isinstance(n.value, ast.Call) and any(isinstance(x, ast.Name) and x.id == oparams[0] for x in ast.walk(n.value))
              and ((isinstance(n.value.func, ast.Attribute) and n.value.func.attr == 'join') or (isinstance(n.value.func, ast.Name) and n.value.func.id in ('tuple', 'list', 'frozenset', 'sorted', 'str')))}
    run.check(not inner_refs and bool(joined), 'create_default_options reads the method list eagerly (snapshot in the factory body; the responder closures do not reference the live list)',
              fopt, inner_refs[0].node.name if inner_refs else fopt.node.name, where=(inner_refs[0] if inner_refs else fopt).loc(),
              runtime_witness='OPTIONS on a GET-only resource answers Allow: GET, OPTIONS (the list is read after OPTIONS was appended)')
    # (2) on the installing path OPTIONS is in the list handed to the 405 factory
    path = flow.find_path(cfg, [y for (y, l) in cfg.succ[on.id] if l != 'exc'], [nn.id], avoid_nodes=[x.id for x in opt_appends], edge_filter=flow.no_exc)
    run.check(path is None and ncall.args[0].id == lst, 'the 405 responder receives the same list with "OPTIONS" appended (Allow = implemented methods + OPTIONS)',
              f, ncall, witness=flow.describe_path(cfg, path) if path else None,
              runtime_witness='405 on a GET-only resource answers Allow: GET (OPTIONS missing although it is answered)')
    # OPTIONS is added only on the installing path (otherwise it is already a key)
    for n in opt_appends:
        run.check(n.id not in flow.reachable(cfg, [cfg.entry], avoid_edges=missing), '"OPTIONS" is appended only when the automatic responder is installed (no duplicate)',
                  f, n.ast)
    # the created responders are installed
    stores = {}
    for n in cfg.live_nodes():
        if n.kind == 'stmt' and isinstance(n.ast, ast.Assign) and len(n.ast.targets) == 1 and isinstance(n.ast.targets[0], ast.Subscript) \
                and isinstance(n.ast.targets[0].value, ast.Name) and n.ast.targets[0].value.id == mm:
            stores[n.id] = n.ast
    ovar = on.ast.targets[0].id if isinstance(on.ast, ast.Assign) and isinstance(on.ast.targets[0], ast.Name) else None
    nvar = nn.ast.targets[0].id if isinstance(nn.ast, ast.Assign) and isinstance(nn.ast.targets[0], ast.Name) else None
    o_store = [i for i, s in stores.items() if is_options(s.targets[0].slice)
               and ((isinstance(s.value, ast.Name) and s.value.id == ovar) or s.value is ocall)]
    # (the creating statement may itself be the store: `method_map['OPTIONS'] = create_default_options(...)`)
    path = None if on.id in o_store else flow.find_path(cfg, [y for (y, l) in cfg.succ[on.id] if l != 'exc'], [cfg.exit], avoid_nodes=o_store, edge_filter=flow.no_exc)
    run.check(bool(o_store) and path is None, 'the automatic responder is installed under "OPTIONS"', f, ocall)
    n_store = [i for i, s in stores.items() if (isinstance(s.value, ast.Name) and s.value.id == nvar) or s.value is ncall]
    guarded = []
    for i in n_store:
        s = stores[i]
        key = s.targets[0].slice

        def key_cmp(e, op, key=key):
            return (isinstance(e, ast.Compare) and len(e.ops) == 1 and isinstance(e.ops[0], op) and short(e.left) == short(key)
                    and isinstance(e.comparators[0], ast.Name) and e.comparators[0].id == mm)

        edges = _truth_edges(cfg, lambda e: key_cmp(e, ast.NotIn), True, neg=lambda e: key_cmp(e, ast.In))
        guarded.append(bool(edges) and i not in flow.reachable(cfg, [cfg.entry], avoid_edges=edges))
    # `method_map.setdefault(<method>, <the 405 responder>)` stores exactly when the key is missing: a guarded store by itself
    n_setdefault = [n.id for n in cfg.live_nodes() for c in n.calls()
                    if isinstance(c.func, ast.Attribute) and c.func.attr == 'setdefault' and isinstance(c.func.value, ast.Name) and c.func.value.id == mm
                    and len(c.args) == 2 and not c.keywords and ((isinstance(c.args[1], ast.Name) and c.args[1].id == nvar) or c.args[1] is ncall)]
    run.check(bool(n_store or n_setdefault) and all(guarded), 'the 405 responder fills only the methods the resource does not implement', f, ncall)
    # factories: sync and async closures agree; their content
    for fac, what in ((fna, '405'), (fopt, 'OPTIONS')):
        closures = _returned_closures(fac)
        if len(closures) != 2 or {g.is_async for g in closures} != {True, False}:
            raise AnchorError('%s: expected one sync and one async closure' % fac.qual)
        fparams = fac.params()
        # (each closure is read with the statements of a plain helper it calls in place of the call)
        langs = [(g,) + _closure_language(run, inlined_view(p, g), fparams[0], set()) for g in closures]
        diff = flow.language_diff(langs[0][1], langs[1][1])
        run.check(diff is None, 'the sync and async default %s responders make the same raise / status / header events' % what, langs[0][0],
                  'sync-vs-async ' + fac.qual, where=fac.loc(), witness=[str(diff)] if diff else None)
        asgi_sel = _truth_edges(cfg_of(fac, p), lambda e: isinstance(e, ast.Name) and len(fparams) > 1 and e.id == fparams[1], True)
        fcfg = cfg_of(fac, p)
        run.use_cfg(fcfg)
        for g in closures:
            rets = [n.id for n in fcfg.live_nodes() if n.kind == 'stmt' and isinstance(n.ast, ast.Return) and isinstance(n.ast.value, ast.Name) and n.ast.value.id == g.node.name]
            if not rets:
                raise UnknownIdiom('%s: closure %s is not returned by name' % (fac.qual, g.node.name))
            for r in rets:
                dom = bool(asgi_sel) and r not in flow.reachable(fcfg, [fcfg.entry], avoid_edges=asgi_sel)
                run.check(dom == g.is_async, 'the %s variant of the default %s responder is returned exactly when asgi is requested' % ('async' if g.is_async else 'sync', what),
                          fac, fcfg.node(r).ast)
    # 405 closure raises HTTPMethodNotAllowed(<the live list>)
    naparams = fna.params()

    def bound_once_in_factory(name: str):
        """Value of a local the factory body binds exactly once (and no closure rebinds): read through by the closures."""
        if name in naparams:
            return None
        vals = [n.value for n in walk_self(fna.node) if isinstance(n, (ast.Assign, ast.AnnAssign)) and n.value is not None
                for t in (n.targets if isinstance(n, ast.Assign) else [n.target]) if isinstance(t, ast.Name) and t.id == name]
        others = [x for n in ast.walk(fna.node) for x in [n] if (isinstance(x, ast.Name) and x.id == name and not isinstance(x.ctx, ast.Load))
                  or (isinstance(x, (ast.Nonlocal, ast.Global)) and name in x.names)]
        return vals[0] if len(vals) == 1 and len(others) == 1 else None

    def is_405_class(g, fn) -> bool:
        # the class itself, or an alias of it bound once in the factory (`error_cls = HTTPMethodNotAllowed`); an alias of an
        # INSTANCE built in the factory (`error = HTTPMethodNotAllowed(...)`; `raise error`) is not a class and is not read through
        if p.resolve_expr(g.module, fn, g) == 'falcon.errors.HTTPMethodNotAllowed':
            return True
        if isinstance(fn, ast.Name):
            v = bound_once_in_factory(fn.id)
            return v is not None and isinstance(v, (ast.Name, ast.Attribute)) and p.resolve_expr(fna.module, v, fna) == 'falcon.errors.HTTPMethodNotAllowed'
        return False

    def is_method_list(a) -> bool:
        # the factory's parameter, or a list()/tuple() copy of it taken once in the factory body (the factory is called after
        # "OPTIONS" was appended -- obligation (2) above -- so a copy made there holds the same methods)
        def copy_of_param(v) -> bool:
            return (isinstance(v, ast.Call) and isinstance(v.func, ast.Name) and v.func.id in ('list', 'tuple') and len(v.args) == 1
                    and not v.keywords and isinstance(v.args[0], ast.Name) and v.args[0].id == naparams[0])
        if copy_of_param(a):
            return True
        if not isinstance(a, ast.Name):
            return False
        if a.id == naparams[0]:
            return True
        v = bound_once_in_factory(a.id)
        return (v is not None and isinstance(v, ast.Call) and isinstance(v.func, ast.Name) and v.func.id in ('list', 'tuple')
                and len(v.args) == 1 and not v.keywords and isinstance(v.args[0], ast.Name) and v.args[0].id == naparams[0])

    e405 = p.func('falcon.errors.HTTPMethodNotAllowed.__init__')
    list_param = e405.params()[1] if len(e405.params()) > 1 else None      # the constructor's own name for the method list

    def raised(g, r):
        # what `raise X` raises: the call written there, or - `error = Cls(..); raise error` - the call a local of the CLOSURE is
        # bound to exactly once (built per request, like the direct spelling)
        e = r.exc
        if isinstance(e, ast.Name) and e.id not in g.params():
            vals = [n.value for n in walk_self(g.node) if isinstance(n, (ast.Assign, ast.AnnAssign)) and n.value is not None
                    for t in (n.targets if isinstance(n, ast.Assign) else [n.target]) if isinstance(t, ast.Name) and t.id == e.id]
            stores = [x for x in ast.walk(g.node) if isinstance(x, ast.Name) and x.id == e.id and not isinstance(x.ctx, ast.Load)]
            if len(vals) == 1 and len(stores) == 1:
                return vals[0]
        return e

    def sole_argument(c: ast.Call):
        # the method list handed positionally or by the constructor's parameter name
        if len(c.args) == 1 and not c.keywords:
            return c.args[0]
        if not c.args and len(c.keywords) == 1 and c.keywords[0].arg is not None and c.keywords[0].arg == list_param:
            return c.keywords[0].value
        return None

    for g0 in _returned_closures(fna):
        g = inlined_view(p, g0)
        raises = [n for n in walk_self(g.node) if isinstance(n, ast.Raise)]
        if not raises:
            _unread_escape(p, g, [naparams[0]], 'the method list')
        exc = raised(g, raises[0]) if len(raises) == 1 else None
        ok = isinstance(exc, ast.Call) and is_405_class(g, exc.func) and sole_argument(exc) is not None and is_method_list(sole_argument(exc))
        run.check(ok, 'the default 405 responder raises HTTPMethodNotAllowed with the factory\'s method list', g, raises[0] if raises else g.node.name)
    # OPTIONS closure: 200 + Allow: <snapshot>
    status200 = p.fold(fopt.module, ast.Name('HTTP_200', ast.Load()), None, None)
    for g0 in _returned_closures(fopt):
        g = inlined_view(p, g0)
        gp = g.params()
        if len(gp) < 2:
            raise UnknownIdiom('%s signature' % g.qual)
        resp = gp[1]
        _unread_escape(p, g, [resp], 'the response object')
        allow_sets = []         # (call, value) of every `set_header('Allow', value)` (also as an item of set_headers({...}))
        for c in walk_self(g.node):
            if isinstance(c, ast.Call):
                for (kind, ke, ve) in (_header_writes(p, g, resp, c) or []):
                    k = p.fold(g.module, ke, None, g)
                    if kind == 'set_header' and isinstance(k, str) and k.lower() == 'allow':
                        allow_sets.append((c, ve))
        ok = len(allow_sets) == 1 and isinstance(allow_sets[0][1], ast.Name) and allow_sets[0][1].id in joined
        run.check(ok, 'the automatic OPTIONS responder sets Allow to the snapshot of the method list', g, allow_sets[0][0] if allow_sets else g.node.name,
                  where=g.loc(allow_sets[0][0]) if allow_sets else g.loc())
        sts = [n for n in walk_self(g.node) if isinstance(n, ast.Assign) and any(dotted(t) == resp + '.status' for t in n.targets)]
        vals = [p.fold(g.module, s.value, None, g) for s in sts]
        run.check(all(isinstance(v, str) and v.startswith('200') for v in vals), 'the automatic OPTIONS responder answers 200', g, sts[0] if sts else g.node.name,
                  where=g.loc(sts[0]) if sts else g.loc())
    # the snapshot is the comma-joined list
    jn = [n for n in walk_self(fopt.node) if isinstance(n, ast.Assign) and len(n.targets) == 1 and isinstance(n.targets[0], ast.Name) and n.targets[0].id in joined]
    for n in jn:
        v = n.value
        ok = isinstance(v.func, ast.Attribute) and v.func.attr == 'join' and isinstance(v.func.value, ast.Constant) and v.func.value.value == ', ' \
            and len(v.args) == 1 and isinstance(v.args[0], ast.Name) and v.args[0].id == oparams[0]
        run.check(ok, 'the OPTIONS Allow value is the ", "-joined method list', fopt, n)
    # HTTPMethodNotAllowed: Allow from its argument, status 405
    e = p.func('falcon.errors.HTTPMethodNotAllowed.__init__')
    ep = e.params()
    hs = [n for n in walk_self(e.node) if isinstance(n, ast.Assign) and len(n.targets) == 1 and isinstance(n.targets[0], ast.Subscript)
          and isinstance(n.targets[0].slice, ast.Constant) and isinstance(n.targets[0].slice.value, str) and n.targets[0].slice.value.lower() == 'allow']
    ok = len(hs) == 1 and isinstance(hs[0].value, ast.Call) and isinstance(hs[0].value.func, ast.Attribute) and hs[0].value.func.attr == 'join' \
        and isinstance(hs[0].value.func.value, ast.Constant) and hs[0].value.func.value.value == ', ' \
        and len(hs[0].value.args) == 1 and isinstance(hs[0].value.args[0], ast.Name) and len(ep) > 1 and hs[0].value.args[0].id == ep[1]
    run.check(ok, 'HTTPMethodNotAllowed sets Allow to its ", "-joined allowed_methods argument', e, hs[0] if hs else e.node.name)
    sup = [c for c in walk_self(e.node) if isinstance(c, ast.Call) and isinstance(c.func, ast.Attribute) and c.func.attr == '__init__' and c.args]
    if not sup:
        raise AnchorError('HTTPMethodNotAllowed.__init__ does not call super().__init__')
    st = p.fold(e.module, sup[0].args[0], None, e)
    run.check(isinstance(st, str) and st.startswith('405'), 'HTTPMethodNotAllowed carries status 405', e, sup[0].args[0])
    hdr_kw = [k for k in sup[0].keywords if k.arg == 'headers']
    hvar = hs[0].targets[0].value.id if hs and isinstance(hs[0].targets[0].value, ast.Name) else None
    run.check(len(hdr_kw) == 1 and isinstance(hdr_kw[0].value, ast.Name) and hdr_kw[0].value.id == hvar,
              'the headers carrying Allow are the ones passed to HTTPError', e, sup[0])


# ---------------------------------------------------------------------------
# R5 suffix and kwargs
# ---------------------------------------------------------------------------

class _NameEval:
    """Abstract value of a responder-name expression UNDER THE ASSUMPTION THAT THE
    SUFFIX IS TRUTHY: a set of alternatives, each a tuple of pieces
    ('c', text) literal text | ('s',) the suffix value | ('o', text) a string the
    suffix has no part in (`method.lower()`, another parameter, ...).  Read:
    string constants, the suffix parameter, locals bound by plain / augmented
    assignments (looked up in the per-path environment), `+`, f-strings,
    `'..{}..'.format(...)`, `'..%s..' % (...)`, conditional expressions whose
    test is decided (or left open) by the suffix class.  Anything else that
    involves the suffix is UnknownIdiom."""

    CAP_ALTS = 8
    CAP_PIECES = 12

    def __init__(self, suffix: str, tracked: Set[str]):
        self.suffix = suffix
        self.tracked = tracked

    def involves_suffix(self, e, env) -> bool:
        for x in ast.walk(e):
            if isinstance(x, ast.Name):
                if x.id == self.suffix:
                    return True
                if x.id in self.tracked and any(pc == ('s',) for alt in (env.get(x.id) or ()) for pc in alt):
                    return True
        return False

    @staticmethod
    def _norm(pieces) -> tuple:
        out: List[tuple] = []
        for pc in pieces:
            if pc[0] == 'c':
                if not pc[1]:
                    continue
                if out and out[-1][0] == 'c':
                    out[-1] = ('c', out[-1][1] + pc[1])
                    continue
            out.append(pc)
        return tuple(out)

    def _cat(self, parts, e) -> FrozenSet[tuple]:
        acc: Set[tuple] = {()}
        for alts in parts:
            acc = {self._norm(a + b) for a in acc for b in alts}
            if len(acc) > self.CAP_ALTS or any(len(a) > self.CAP_PIECES for a in acc):
                raise UnknownIdiom('responder-name expression %s grows beyond what the rule follows' % short(e))
        return frozenset(acc)

    def _opaque(self, e, env) -> FrozenSet[tuple]:
        if self.involves_suffix(e, env):
            raise UnknownIdiom('responder-name expression %s uses the suffix in a form the rule does not know' % short(e))
        return frozenset({(('o', short(e)),)})

    def ev(self, e, env) -> FrozenSet[tuple]:
        if isinstance(e, ast.Constant) and isinstance(e.value, str):
            return frozenset({self._norm([('c', e.value)])})
        if isinstance(e, ast.Name):
            if e.id == self.suffix:
                return frozenset({(('s',),)})
            if e.id in self.tracked:
                v = env.get(e.id)
                return v if v is not None else frozenset({(('o', e.id),)})
            return frozenset({(('o', e.id),)})
        if isinstance(e, ast.BinOp) and isinstance(e.op, ast.Add):
            return self._cat([self.ev(e.left, env), self.ev(e.right, env)], e)
        if isinstance(e, ast.IfExp):
            out: Set[tuple] = set()
            if 'truthy' in _suffix_classes(e.test, True, self.suffix):
                out |= self.ev(e.body, env)
            if 'truthy' in _suffix_classes(e.test, False, self.suffix):
                out |= self.ev(e.orelse, env)
            if not out or len(out) > self.CAP_ALTS:
                raise UnknownIdiom('responder-name expression %s' % short(e))
            return frozenset(out)
        if isinstance(e, ast.JoinedStr):
            parts = []
            for v in e.values:
                if isinstance(v, ast.FormattedValue):
                    parts.append(self.ev(v.value, env) if v.conversion == -1 and v.format_spec is None else self._opaque(v, env))
                else:
                    parts.append(self.ev(v, env))
            return self._cat(parts, e)
        if isinstance(e, ast.Call) and isinstance(e.func, ast.Attribute) and e.func.attr == 'format' \
                and isinstance(e.func.value, ast.Constant) and isinstance(e.func.value.value, str) \
                and not any(isinstance(a, ast.Starred) for a in e.args) and all(k.arg for k in e.keywords):
            import string
            kw = {k.arg: k.value for k in e.keywords}
            parts, auto = [], 0
            try:
                fields = list(string.Formatter().parse(e.func.value.value))
            except ValueError:
                return self._opaque(e, env)
            for lit, name, spec, conv in fields:
                parts.append(frozenset({self._norm([('c', lit)])}))
                if name is None:
                    continue
                if name == '':
                    name, auto = str(auto), auto + 1
                arg = e.args[int(name)] if name.isdigit() and int(name) < len(e.args) else kw.get(name)
                if arg is None:
                    return self._opaque(e, env)
                parts.append(self._opaque(arg, env) if spec or conv else self.ev(arg, env))
            return self._cat(parts, e)
        if isinstance(e, ast.BinOp) and isinstance(e.op, ast.Mod) and isinstance(e.left, ast.Constant) and isinstance(e.left.value, str):
            args = list(e.right.elts) if isinstance(e.right, ast.Tuple) else [e.right]
            chunks = re.split(r'(%[^a-zA-Z%]*[a-zA-Z%])', e.left.value)
            parts, i = [], 0
            for ch in chunks:
                if ch == '%%':
                    parts.append(frozenset({(('c', '%'),)}))
                elif ch == '%s' and i < len(args) and not isinstance(args[i], ast.Starred):
                    parts.append(self.ev(args[i], env))
                    i += 1
                elif ch.startswith('%') and len(ch) > 1:
                    return self._opaque(e, env)
                else:
                    parts.append(frozenset({self._norm([('c', ch)])}))
            if i != len(args):
                return self._opaque(e, env)
            return self._cat(parts, e)
        return self._opaque(e, env)

    @staticmethod
    def verdict(alt: tuple) -> str:
        """'sfx' the name ends in '_' + suffix | 'bad' the suffix is absent or glued on without the '_' separator
        | raises UnknownIdiom for a placement the rule does not judge."""
        n = sum(1 for pc in alt if pc == ('s',))
        if n == 0:
            return 'bad'
        if n == 1 and alt[-1] == ('s',):
            if len(alt) >= 2 and alt[-2][0] == 'c':
                return 'sfx' if alt[-2][1].endswith('_') else 'bad'
            if len(alt) == 1:
                return 'bad'
        raise UnknownIdiom('responder name built as %s: placement of the suffix not judged' % ' + '.join(
            repr(pc[1]) if pc[0] == 'c' else '<suffix>' if pc[0] == 's' else pc[1] for pc in alt))


def _name_bindings(f: Func, suffix: str, roots: Iterable[ast.AST]):
    """Locals that take part in the responder-name expressions `roots`:
    (tracked, stmts) where stmts are the plain / augmented assignments binding
    them.  A local of that set bound in any other way (loop target, unpacking,
    walrus, with/except) is left opaque provided its binder does not involve
    the suffix."""
    binds: Dict[str, List[ast.AST]] = {}
    other: Dict[str, List[ast.AST]] = {}

    def tname(t):
        return t.id if isinstance(t, ast.Name) else None

    for s in walk_self(f.node):
        if isinstance(s, (ast.ListComp, ast.SetComp, ast.DictComp, ast.GeneratorExp)):
            continue
        if isinstance(s, ast.Assign) and len(s.targets) == 1 and tname(s.targets[0]):
            binds.setdefault(s.targets[0].id, []).append(s)
        elif isinstance(s, ast.AnnAssign) and tname(s.target):
            if s.value is not None:
                binds.setdefault(s.target.id, []).append(s)
        elif isinstance(s, ast.AugAssign) and tname(s.target):
            binds.setdefault(s.target.id, []).append(s)
        elif isinstance(s, (ast.Assign, ast.For, ast.AsyncFor, ast.With, ast.AsyncWith, ast.NamedExpr, ast.ExceptHandler)):
            tg: List[ast.AST] = []
            if isinstance(s, ast.Assign):
                tg = list(s.targets)
            elif isinstance(s, (ast.For, ast.AsyncFor, ast.NamedExpr)):
                tg = [s.target]
            elif isinstance(s, (ast.With, ast.AsyncWith)):
                tg = [i.optional_vars for i in s.items if i.optional_vars is not None]
            elif s.name:
                other.setdefault(s.name, []).append(s)
            src = s.value if isinstance(s, (ast.Assign, ast.NamedExpr)) else s.iter if isinstance(s, (ast.For, ast.AsyncFor)) else s
            for t in tg:
                for x in ast.walk(t):
                    if isinstance(x, ast.Name) and isinstance(x.ctx, ast.Store):
                        other.setdefault(x.id, []).append(src)
    tracked: Set[str] = set()
    work = [x.id for r in roots for x in ast.walk(r) if isinstance(x, ast.Name)]
    while work:
        nm = work.pop()
        if nm in tracked or nm == suffix:
            continue
        if nm in other:
            if nm in binds or any(isinstance(x, ast.Name) and x.id == suffix for src in other[nm] if isinstance(src, ast.AST) for x in ast.walk(src)):
                raise UnknownIdiom('%s: local %s of the responder name is bound by a construct the rule does not read' % (f.qual, nm))
            continue
        if nm in binds:
            tracked.add(nm)
            for s in binds[nm]:
                work.extend(x.id for x in ast.walk(s.value) if isinstance(x, ast.Name))
    stmts = [s for nm in sorted(tracked) for s in binds[nm]]
    return tracked, stmts


def _suffix_classes(test, truth: bool, suffix: str) -> FrozenSet[str]:
    """Which of {None, falsy-but-not-None, truthy} the suffix can be when the
    test has the given outcome (other atoms free)."""
    atoms: List[str] = []

    def build(e):
        if isinstance(e, ast.Name) and e.id == suffix:
            return ('truthy',)
        if isinstance(e, ast.Compare) and len(e.ops) == 1 and isinstance(e.left, ast.Name) and e.left.id == suffix \
                and isinstance(e.comparators[0], ast.Constant) and e.comparators[0].value is None:
            if isinstance(e.ops[0], (ast.Is, ast.Eq)):
                return ('none',)
            if isinstance(e.ops[0], (ast.IsNot, ast.NotEq)):
                return ('not', ('none',))
        if isinstance(e, ast.BoolOp):
            return ('and' if isinstance(e.op, ast.And) else 'or', [build(v) for v in e.values])
        if isinstance(e, ast.UnaryOp) and isinstance(e.op, ast.Not):
            return ('not', build(e.operand))
        key = short(e)
        if key not in atoms:
            atoms.append(key)
        return ('atom', atoms.index(key))

    form = build(test)

    def ev(f, cls, bits):
        k = f[0]
        if k == 'truthy':
            return cls == 'truthy'
        if k == 'none':
            return cls == 'none'
        if k == 'atom':
            return bool(bits >> f[1] & 1)
        if k == 'not':
            return not ev(f[1], cls, bits)
        if k == 'and':
            return all(ev(x, cls, bits) for x in f[1])
        return any(ev(x, cls, bits) for x in f[1])

    if len(atoms) > 10:
        return frozenset(('none', 'empty', 'truthy'))
    out = set()
    for cls in ('none', 'empty', 'truthy'):
        if any(ev(form, cls, bits) == truth for bits in range(1 << len(atoms))):
            out.add(cls)
    return frozenset(out)


class _Unreadable(Exception):
    pass


# Finite domain the sink-kwargs expression is evaluated on: what re.Match.groupdict()
# can return (name -> matched text, or None for a group that did not participate).
_GD_SAMPLES = (
    {'version': None, 'id': '12'},      # an optional group that did not take part in the match
    {'a': '', 'b': '0', 'c': None},     # a group that matched the empty string / a falsy-looking text
    {'id': '7'},
    {},
)
_GD_DICT_METHODS = {'items', 'keys', 'values', 'copy', 'get'}
_GD_BUILTINS = {'dict': dict, 'list': list, 'tuple': tuple, 'len': len, 'bool': bool, 'iter': iter, 'sorted': sorted, 'reversed': reversed}


class _GroupdictEval:
    """Concrete evaluation of the (small, closed) expression language in which
    a copy / filter / re-keying of `<match>.groupdict()` can be written, on the
    samples above.  Nothing of the analysed code is executed: the interpreter
    below reads dict displays, comprehensions, dict()/list()/tuple(), the dict
    views, comparisons, boolean operators and conditional expressions; every
    other construct is _Unreadable (-> UnknownIdiom)."""

    def __init__(self, resolve_name: Callable[[str], Optional[ast.AST]]):
        self.resolve_name = resolve_name
        self.sample: Dict[str, Optional[str]] = {}
        self.src: List[ast.AST] = []        # receivers of .groupdict() met
        self._active: Set[str] = set()

    def run(self, e, sample):
        self.sample = sample
        return self.ev(e, {})

    def ev(self, e, env):
        if isinstance(e, ast.Constant):
            return e.value
        if isinstance(e, ast.Name):
            if e.id in env:
                return env[e.id]
            if e.id in _GD_BUILTINS or e.id in self._active:
                raise _Unreadable(short(e))
            d = self.resolve_name(e.id)
            if d is None:
                raise _Unreadable('%s (not a local with one definition in the scan)' % e.id)
            self._active.add(e.id)
            try:
                return self.ev(d, {})
            finally:
                self._active.discard(e.id)
        if isinstance(e, ast.Tuple):
            return tuple(self.ev(x, env) for x in e.elts)
        if isinstance(e, ast.List):
            return [self.ev(x, env) for x in e.elts]
        if isinstance(e, ast.Dict):
            out = {}
            for k, v in zip(e.keys, e.values):
                if k is None:
                    m = self.ev(v, env)
                    if not isinstance(m, dict):
                        raise _Unreadable(short(e))
                    out.update(m)
                else:
                    out[self._hashable(self.ev(k, env), e)] = self.ev(v, env)
            return out
        if isinstance(e, (ast.DictComp, ast.ListComp, ast.GeneratorExp, ast.SetComp)):
            acc = []
            self._comp(e, 0, env, acc)
            if isinstance(e, ast.DictComp):
                return {self._hashable(k, e): v for k, v in acc}
            if isinstance(e, ast.SetComp):
                return {self._hashable(x, e) for x in acc}
            return list(acc)
        if isinstance(e, ast.BoolOp):
            val = None
            for x in e.values:
                val = self.ev(x, env)
                if isinstance(e.op, ast.And) and not val:
                    return val
                if isinstance(e.op, ast.Or) and val:
                    return val
            return val
        if isinstance(e, ast.UnaryOp) and isinstance(e.op, ast.Not):
            return not self.ev(e.operand, env)
        if isinstance(e, ast.IfExp):
            return self.ev(e.body, env) if self.ev(e.test, env) else self.ev(e.orelse, env)
        if isinstance(e, ast.Compare):
            left = self.ev(e.left, env)
            for op, c in zip(e.ops, e.comparators):
                right = self.ev(c, env)
                if isinstance(op, ast.Is):
                    r = left is right
                elif isinstance(op, ast.IsNot):
                    r = left is not right
                elif isinstance(op, ast.Eq):
                    r = left == right
                elif isinstance(op, ast.NotEq):
                    r = left != right
                elif isinstance(op, (ast.In, ast.NotIn)):
                    if not isinstance(right, (dict, list, tuple, set, frozenset, str)) or (isinstance(right, str) and not isinstance(left, str)):
                        raise _Unreadable(short(e))
                    r = (left in right) if isinstance(op, ast.In) else (left not in right)
                else:
                    raise _Unreadable(short(e))
                if not r:
                    return False
                left = right
            return True
        if isinstance(e, ast.Subscript):
            base, k = self.ev(e.value, env), self.ev(e.slice, env) if not isinstance(e.slice, ast.Slice) else None
            if isinstance(e.slice, ast.Slice) or not isinstance(base, (dict, tuple, list)):
                raise _Unreadable(short(e))
            try:
                return base[k]
            except (KeyError, IndexError, TypeError):
                raise _Unreadable('%s raises on a sample' % short(e))
        if isinstance(e, ast.BinOp) and isinstance(e.op, ast.BitOr):
            a, b = self.ev(e.left, env), self.ev(e.right, env)
            if isinstance(a, dict) and isinstance(b, dict):
                return {**a, **b}
            raise _Unreadable(short(e))
        if isinstance(e, ast.Call):
            if any(isinstance(a, ast.Starred) for a in e.args):
                raise _Unreadable(short(e))
            fn = e.func
            if isinstance(fn, ast.Attribute) and fn.attr == 'groupdict':
                self.src.append(fn.value)
                if e.keywords and [k.arg for k in e.keywords] != ['default'] or len(e.args) + len(e.keywords) > 1:
                    raise _Unreadable(short(e))
                extra = list(e.args) + [k.value for k in e.keywords]
                default = self.ev(extra[0], env) if extra else None
                return {k: (default if v is None else v) for k, v in self.sample.items()}
            if isinstance(fn, ast.Name) and fn.id in _GD_BUILTINS and fn.id not in env:
                args = [self.ev(a, env) for a in e.args]
                if fn.id == 'dict':
                    kw = {}
                    for k in e.keywords:
                        if k.arg is None:
                            m = self.ev(k.value, env)
                            if not isinstance(m, dict):
                                raise _Unreadable(short(e))
                            kw.update(m)
                        else:
                            kw[k.arg] = self.ev(k.value, env)
                    try:
                        return dict(*args, **kw)
                    except (TypeError, ValueError):
                        raise _Unreadable('%s raises on a sample' % short(e))
                if e.keywords or len(args) != 1 or not isinstance(args[0], (dict, list, tuple, set, str)) and not hasattr(args[0], '__iter__'):
                    raise _Unreadable(short(e))
                try:
                    r = _GD_BUILTINS[fn.id](args[0])
                except TypeError:
                    raise _Unreadable('%s raises on a sample' % short(e))
                return list(r) if fn.id in ('iter', 'reversed') else r
            if isinstance(fn, ast.Attribute) and fn.attr in _GD_DICT_METHODS and not e.keywords:
                base = self.ev(fn.value, env)
                if not isinstance(base, dict):
                    raise _Unreadable(short(e))
                args = [self.ev(a, env) for a in e.args]
                if fn.attr == 'get':
                    if not 1 <= len(args) <= 2:
                        raise _Unreadable(short(e))
                    return base.get(self._hashable(args[0], e), *args[1:])
                if args:
                    raise _Unreadable(short(e))
                return dict(base) if fn.attr == 'copy' else list(getattr(base, fn.attr)())
            raise _Unreadable(short(e))
        raise _Unreadable(short(e))

    @staticmethod
    def _hashable(k, e):
        try:
            hash(k)
        except TypeError:
            raise _Unreadable('%s builds an unhashable key' % short(e))
        return k

    def _bind(self, target, value, env, e):
        if isinstance(target, ast.Name):
            env[target.id] = value
        elif isinstance(target, (ast.Tuple, ast.List)) and not any(isinstance(x, ast.Starred) for x in target.elts):
            if not isinstance(value, (tuple, list)) or len(value) != len(target.elts):
                raise _Unreadable('%s: unpacking %s' % (short(e), short(target)))
            for t, v in zip(target.elts, value):
                self._bind(t, v, env, e)
        else:
            raise _Unreadable('%s: target %s' % (short(e), short(target)))

    def _comp(self, e, i, env, acc):
        if i == len(e.generators):
            if isinstance(e, ast.DictComp):
                acc.append((self.ev(e.key, env), self.ev(e.value, env)))
            else:
                acc.append(self.ev(e.elt, env))
            return
        g = e.generators[i]
        if g.is_async:
            raise _Unreadable(short(e))
        it = self.ev(g.iter, env)
        if isinstance(it, dict):
            it = list(it)
        if not isinstance(it, (list, tuple)):
            raise _Unreadable('%s iterates %s' % (short(e), short(g.iter)))
        for item in it:
            env2 = dict(env)
            self._bind(g.target, item, env2, e)
            if all(self.ev(c, env2) for c in g.ifs):
                self._comp(e, i + 1, env2, acc)


def _mentions_groupdict(v, resolve_name, _seen=None) -> bool:
    seen = set() if _seen is None else _seen
    for x in ast.walk(v):
        if isinstance(x, ast.Call) and isinstance(x.func, ast.Attribute) and x.func.attr == 'groupdict':
            return True
        if isinstance(x, ast.Name) and isinstance(x.ctx, ast.Load) and x.id not in seen:
            seen.add(x.id)
            d = resolve_name(x.id)
            if d is not None and _mentions_groupdict(d, resolve_name, seen):
                return True
    return False


def r5_suffix_kwargs(run):
    p = run.project
    f = inlined_view(p, p.func(UTIL + '.map_http_methods'))      # (local aliases / plain helpers written out)
    cfg = cfg_of(f, p)
    run.use_cfg(cfg)
    params = f.params()
    if len(params) < 2:
        raise AnchorError('map_http_methods signature')
    resource, suffix = params[0], params[1]
    if any(isinstance(x, ast.Name) and x.id == suffix and isinstance(x.ctx, ast.Store) for x in walk_self(f.node)):
        raise UnknownIdiom('map_http_methods rebinds its suffix parameter')
    getattrs = [c for c in walk_self(f.node) if isinstance(c, ast.Call) and isinstance(c.func, ast.Name) and c.func.id == 'getattr'
                and c.args and isinstance(c.args[0], ast.Name) and c.args[0].id == resource]
    if not getattrs:
        raise AnchorError('map_http_methods does not look responders up with getattr(resource, name)')
    for ga in getattrs:
        if len(ga.args) < 2:
            raise UnknownIdiom('getattr shape %s' % short(ga))
        namee = ga.args[1]
        tracked, bstmts = _name_bindings(f, suffix, [namee])
        nev = _NameEval(suffix, tracked)
        order = sorted(tracked)

        def lab(n, ga=ga, bstmts=bstmts):
            out = []
            if n.kind == 'stmt':
                for i, s in enumerate(bstmts):
                    if n.ast is s:
                        out.append('A%d' % i)
            if any(c is ga for c in n.calls()):
                out.insert(0, '^GET')
            return out

        def delta(st, l, nev=nev, namee=namee, bstmts=bstmts, order=order):
            envt, known = st
            env = dict(zip(order, envt))
            if l == 'GET':
                if 'truthy' not in known:
                    return st
                if any(nev.verdict(alt) == 'bad' for alt in nev.ev(namee, env)):
                    return ERROR
                return st
            s = bstmts[int(l[1:])]
            if isinstance(s, ast.AugAssign):
                if not isinstance(s.op, ast.Add):
                    raise UnknownIdiom('augmented assignment %s' % short(s))
                val = nev.ev(ast.BinOp(ast.Name(s.target.id, ast.Load()), ast.Add(), s.value), env)
                tn = s.target.id
            else:
                val = nev.ev(s.value, env)
                tn = s.targets[0].id if isinstance(s, ast.Assign) else s.target.id
            env[tn] = val
            return (tuple(env.get(k) for k in order), known)

        def edge_delta(st, a, b, l):
            n = cfg.node(a)
            if n.kind == 'test' and l in ('T', 'F'):
                envt, known = st
                poss = _suffix_classes(n.ast, l == 'T', suffix)
                new = known & poss
                if not new:
                    return None
                return (envt, new)
            return st

        init = (tuple(None for _ in order), frozenset(('none', 'empty', 'truthy')))
        cex, nst, ntr = flow.typestate(cfg, lab, delta, init, edge_delta=edge_delta)
        if cex is None:
            run.ok("with a suffix every responder lookup uses the suffixed name: the name expression, evaluated through the locals bound on the path, "
                   "ends in '_' + suffix whenever the suffix can be truthy", f.loc(ga), ga)
        else:
            path, st, reason = cex
            run.fail("a responder is looked up under a name that does not end in '_' + suffix although a suffix was given", f, ga,
                     witness=flow.describe_path(cfg, path),
                     runtime_witness='add_route("/x", res, suffix="items") dispatching GET to res.on_get instead of res.on_get_items')
    # sink kwargs
    d = _dispatch(run)
    g, gcfg = d.f, d.cfg
    pdefs = d.defs(1)
    if not pdefs:
        raise AnchorError('%s never assigns its params' % GETR)
    sink_edges = _truth_edges(gcfg, lambda e: isinstance(e, ast.Name) and e.id == d.v_is_sink, True)
    n_gd = 0
    gd_nodes = []

    def resolver(cur):
        def resolve(name):
            if name in (d.v_matcher, d.v_obj, d.v_is_sink):
                return None
            ds = [x for i, x in _defs_of(gcfg, name).items() if i in d.body and i != cur]
            return ds[0] if len(ds) == 1 and isinstance(ds[0], ast.expr) else None
        return resolve

    match_vars = d.match_vars()

    def own_match(src):
        return isinstance(src, ast.Name) and src.id in match_vars

    is_sink_cls = _pred_classifier(lambda e: isinstance(e, ast.Name) and e.id == d.v_is_sink)
    arms: List[Tuple[int, ast.AST, Optional[bool]]] = []      # (node, value, is_sink known there from a conditional expression)
    for nid, v in pdefs.items():
        # `params = m.groupdict() if is_sink else {}`: each arm is a value of its own, chosen under what its test says about is_sink
        if isinstance(v, ast.IfExp) and edge_truth(v.test, True, is_sink_cls) is not None and edge_truth(v.test, False, is_sink_cls) is not None:
            arms.append((nid, v.body, edge_truth(v.test, True, is_sink_cls)))
            arms.append((nid, v.orelse, edge_truth(v.test, False, is_sink_cls)))
        else:
            arms.append((nid, v, None))
    for nid, v, arm_sink in arms:
        node = gcfg.node(nid)
        if isinstance(v, ast.Dict) and not v.keys:
            run.ok('params default to an empty dict', g.loc(node.ast), node.ast)
        elif isinstance(v, (ast.Assign, ast.AnnAssign)) and isinstance(v.value, ast.Name):
            run.ok('params are the route\'s parsed fields', g.loc(node.ast), node.ast)
        elif isinstance(v, ast.Name) and v.id != d.v_params and all(isinstance(x, (ast.Assign, ast.AnnAssign)) and isinstance(x.value, ast.Name)
                                                                    for x in _defs_of(gcfg, v.id).values()) and _defs_of(gcfg, v.id):
            run.ok('params are the route\'s parsed fields', g.loc(node.ast), node.ast)
        elif isinstance(v, ast.expr) and _mentions_groupdict(v, resolver(nid)):
            n_gd += 1
            gd_nodes.append(nid)
            on_sink_branch = arm_sink is True if arm_sink is not None else \
                (bool(sink_edges) and nid not in flow.reachable(gcfg, [d.iter_node], avoid_edges=sink_edges))
            run.check(nid in d.body and on_sink_branch,
                      'regex named groups become kwargs on the sink branch only', g, node.ast,
                      runtime_witness='a static route entry (whose matcher returns a bool) asked for .groupdict()')
            # what the expression makes of the match's named groups, on a finite domain of groupdict() results
            gev = _GroupdictEval(resolver(nid))
            diff = None
            try:
                for sample in _GD_SAMPLES:
                    got = gev.run(v, dict(sample))
                    if not (isinstance(got, dict) and got == sample and all(got[k] is sample[k] or got[k] == sample[k] and type(got[k]) is type(sample[k]) for k in got)):
                        diff = diff or (sample, got)
            except _Unreadable as exc:
                raise UnknownIdiom('%s: params defined by %s (computed from groupdict() by a construct the rule does not read: %s)' % (GETR, node.text(), exc))
            except RecursionError:
                raise UnknownIdiom('%s: params defined by %s' % (GETR, node.text()))
            if not gev.src:
                raise UnknownIdiom('%s: params defined by %s' % (GETR, node.text()))
            run.check(all(own_match(sx) for sx in gev.src), 'the kwargs come from the match object of this entry\'s own pattern', g, node.ast)
            run.check(diff is None, 'a sink\'s kwargs are exactly <match>.groupdict(): every named group of the prefix pattern arrives, a group that did not '
                      'take part in the match as None (no filtering, defaulting or re-keying of the dict)', g, node.ast,
                      witness=['groupdict() == %r  ->  params == %r' % diff] if diff else None,
                      runtime_witness="add_sink(s, r'/(?:(?P<version>v\\d+)/)?orders/(?P<id>\\d+)') with def s(req, resp, version, id): GET /orders/12 raises "
                                      'TypeError (500) because version is not passed; a **kwargs sink sees a different dict')
        else:
            raise UnknownIdiom('%s: params defined by %s' % (GETR, node.text()))
    if not n_gd:
        raise AnchorError('%s: sink kwargs (groupdict) not found' % GETR)
    # a selected entry either is known not to be a sink or has had its named groups taken:
    # no path  loop header -> selection -> out of the loop  avoids both the groupdict
    # assignment and every edge on which is_sink is known to be false
    inner = [n for n in d.defs(0) if n in d.body]
    outside = {i for i in gcfg.reachable_ids if i not in d.body and i != d.iter_node}
    not_sink = _truth_edges(gcfg, lambda e: isinstance(e, ast.Name) and e.id == d.v_is_sink, False)
    starts = [y for (y, l) in gcfg.succ[d.iter_node] if l == 'next']
    for r in inner:
        reg1 = flow.reachable(gcfg, starts, avoid_nodes=gd_nodes + [d.iter_node], avoid_edges=not_sink, edge_filter=flow.no_exc)
        bad = None
        if r in reg1:
            bad = flow.find_path(gcfg, [r], outside, avoid_nodes=gd_nodes + [d.iter_node], avoid_edges=not_sink, edge_filter=flow.no_exc)
            if bad:
                bad = (flow.find_path(gcfg, starts, [r], avoid_nodes=gd_nodes + [d.iter_node], avoid_edges=not_sink, edge_filter=flow.no_exc) or []) + bad[1:]
        run.check(not bad, 'a selected sink always receives the named groups of its match', g, gcfg.node(r).ast,
                  where='%s:%s' % (g.file, gcfg.node(r).lineno), witness=flow.describe_path(gcfg, bad) if bad else None,
                  runtime_witness='a sink whose prefix has named groups is called without them')
    # both __call__ pass **params of _get_responder
    for q in (WSGI_CALL, ASGI_CALL):
        af = AppFlow(p, q)
        run.use_cfg(af.cfg)
        calls = [c for n in af.cfg.live_nodes() for c in n.calls() if isinstance(c.func, ast.Name) and c.func.id == af.responder]
        if not calls:
            raise AnchorError('%s: responder call not found' % q)
        for c in calls:
            ok = any(k.arg is None and isinstance(k.value, ast.Name) and k.value.id == af.params for k in c.keywords)
            run.check(ok, 'the responder is invoked with **params as returned by _get_responder', af.func, c,
                      runtime_witness='route fields / sink groups do not arrive as keyword arguments')
        rn = single(af.cfg.nodes_for(af.route_stmt), 'routing statement', q)
        pd = _defs_of(af.cfg, af.params)
        later = [i for i in pd if i != rn and i in flow.reachable(af.cfg, [rn])]
        run.check(not later, 'params are not rebound between routing and the responder call', af.func, af.route_stmt,
                  witness=[af.cfg.node(i).text() for i in later])


# ---------------------------------------------------------------------------
# R12 a sink prefix that already is a pattern object is stored as it is
# ---------------------------------------------------------------------------

_PATTERN_TYPES = {'re.Pattern', 'typing.Pattern', 'typing.re.Pattern'}


def r12_sink_prefix_identity(run):
    """add_sink() documents two entrances for `prefix`: a regex string, or a
    precompiled pattern object (anything with `.match`).  The matcher stored
    in the sink table is evaluated abstractly on the two cells of that
    partition, path by path (typestate over the CFG of add_sink; tests
    `hasattr(prefix, 'match')` / `isinstance(prefix, str)` /
    `isinstance(prefix, re.Pattern)` prune the cell they exclude; values:
    the prefix object itself, re.compile(<the prefix>), its `.pattern` text,
    re.compile(<that text>); typing.cast is the identity; locals bound on the
    path are followed):
      * pattern-object cell: the stored matcher IS the object handed in
        (identity) -- re.compile(prefix.pattern) builds a different pattern
        that has lost the flags (re.I, re.X, re.S ...) of the user's object;
      * str cell: the stored matcher is re.compile(<the str>).
    W: add_sink(s, re.compile('/api/(?P<section>[a-z]+)', re.I)); GET
    /API/Users falls through to an older sink or to 404."""
    p = run.project
    t = _tables(run)
    base = _registry_view(p, p.func(APP + '.add_sink'))      # (as the table census reads it: aliases and a helper handed the list written out)
    funcs = [base] + [_registry_view(p, p.classes[cq].methods['add_sink']) for cq in sorted(p.subclasses(APP)) if cq != APP and 'add_sink' in p.classes[cq].methods]
    for f in funcs:
        if 'prefix' not in f.params():
            raise AnchorError('%s has no `prefix` parameter' % f.qual)
        prm = 'prefix'
        cfg = cfg_of(f, p)
        run.use_cfg(cfg)
        ins = [(pol, call) for (w, pol, g, call) in t.insertions if g is f and w == SINKS]
        if not ins:
            if f is base:
                raise UnknownIdiom('%s does not insert into %s itself (the stored matcher is not followed through a helper)' % (f.qual, SINKS))
            continue
        entries = []
        for (pol, call) in ins:
            if isinstance(call, ast.Call):
                e = call.args[-1] if call.args else None
            else:
                v = call.value
                lists = [x for x in ([v] if isinstance(v, (ast.List, ast.Tuple)) else [v.left, v.right] if isinstance(v, ast.BinOp) else [])
                         if isinstance(x, (ast.List, ast.Tuple))]
                els = [y for x in lists for y in x.elts if not isinstance(y, ast.Starred)]
                e = els[0] if len(els) == 1 else None
            if e is None:
                raise UnknownIdiom('%s: inserted entry of %s' % (f.qual, short(call, 80)))
            entries.append((call, e))
        binds: List[ast.AST] = []
        clobbered: Dict[int, Set[str]] = {}
        for n in cfg.live_nodes():
            if n.kind == 'stmt' and isinstance(n.ast, (ast.Assign, ast.AnnAssign)) and getattr(n.ast, 'value', None) is not None:
                tg = n.ast.targets if isinstance(n.ast, ast.Assign) else [n.ast.target]
                if len(tg) == 1 and isinstance(tg[0], ast.Name):
                    binds.append(n.ast)
                    continue
            stored = {x.id for x in n.walk() if isinstance(x, ast.Name) and isinstance(x.ctx, ast.Store)} if n.kind in ('stmt', 'test', 'with') else set()
            if n.kind == 'iter':
                stored = {x.id for x in ast.walk(n.stmt.target) if isinstance(x, ast.Name)}
            if n.kind == 'handler' and n.ast.name:
                stored = {n.ast.name}
            if stored:
                clobbered[n.id] = stored

        def ev(e, env, cell):
            """(kind, origin text): kind in P (the prefix object) | CP (re.compile of it) | T (its .pattern text) | CT | ?"""
            if isinstance(e, ast.Name):
                if e.id in env:
                    return env[e.id]
                return ('?', e.id)
            if isinstance(e, ast.Call):
                q = p.resolve_expr(f.module, e.func, f)
                if q == 're.compile' and e.args and not isinstance(e.args[0], ast.Starred):
                    if len(e.args) > 1 or e.keywords:
                        return ('?', short(e, 100))    # explicit flags (re.compile(p.pattern, p.flags) may well preserve them): not judged
                    k = ev(e.args[0], env, cell)[0]
                    return ({'P': 'CP', 'T': 'CT'}.get(k, '?'), short(e, 100))
                if q == 'typing.cast' and len(e.args) == 2 and not e.keywords:
                    return ev(e.args[1], env, cell)
                if q == 'builtins.getattr' and len(e.args) in (2, 3) and isinstance(e.args[1], ast.Constant) and e.args[1].value == 'pattern' \
                        and ev(e.args[0], env, cell)[0] == 'P':
                    if cell == 'pat':
                        return ('T', short(e, 100))
                    return ev(e.args[2], env, cell) if len(e.args) == 3 else ('?', short(e, 100))
                return ('?', short(e, 100))
            if isinstance(e, ast.Attribute) and e.attr == 'pattern' and ev(e.value, env, cell)[0] == 'P':
                return ('T', short(e, 100))
            if isinstance(e, ast.IfExp):
                r = edge_truth(e.test, True, classifier(env, cell))
                if r is not None:
                    return ev(e.body if r == (cell == 'pat') else e.orelse, env, cell)
                a, b = ev(e.body, env, cell), ev(e.orelse, env, cell)
                return a if a[0] == b[0] else ('?', short(e, 100))
            if isinstance(e, ast.NamedExpr):
                return ev(e.value, env, cell)
            if isinstance(e, ast.Tuple) and e.elts and not isinstance(e.elts[0], ast.Starred):
                return ('tuple', ev(e.elts[0], env, cell))     # an entry display bound to a local: its matcher as of the binding
            return ('?', short(e, 100))

        def classifier(env, cell):
            # P = "the prefix is a pattern object (has .match)"
            def classify(x):
                if isinstance(x, ast.Call) and not x.keywords and len(x.args) == 2 and ev(x.args[0], env, cell)[0] == 'P':
                    q = p.resolve_expr(f.module, x.func, f)
                    if q == 'builtins.hasattr' and isinstance(x.args[1], ast.Constant) and x.args[1].value in ('match', 'pattern'):
                        return 1
                    if q == 'builtins.isinstance':
                        tq = p.resolve_expr(f.module, x.args[1], f)
                        if tq == 'builtins.str':
                            return -1
                        if tq in _PATTERN_TYPES:
                            return 1
                return 0
            return classify

        def matcher_of(e, env, cell):
            v = ev(e, env, cell)
            if v[0] != 'tuple':
                raise UnknownIdiom('%s: sink entry %s is not a (matcher, sink, flag) display' % (f.qual, short(e, 80)))
            return v[1]

        names = sorted({(b.targets[0] if isinstance(b, ast.Assign) else b.target).id for b in binds} | {prm} | {x for sx in clobbered.values() for x in sx})

        for (call, entry) in entries:
            ins_nodes = [n.id for n in cfg.live_nodes() if n.ast is call or any(x is call for x in n.walk())]
            if not ins_nodes:
                raise UnknownIdiom('%s: insertion %s not on the CFG' % (f.qual, short(call, 60)))
            for cell in ('pat', 'str'):
                want = 'P' if cell == 'pat' else 'CP'

                def lab(n, ins_nodes=ins_nodes):
                    out = []
                    if n.id in ins_nodes:
                        out.append('INS')
                    if n.kind == 'stmt':
                        for i, b in enumerate(binds):
                            if n.ast is b:
                                out.append('S%d' % i)
                    if n.id in clobbered:
                        out.append('K%d' % n.id)
                    return out

                def delta(st, l, cell=cell, want=want, entry=entry):
                    env = dict(zip(names, st))
                    env = {k: v for k, v in env.items() if v is not None}
                    if l == 'INS':
                        k = matcher_of(entry, env, cell)[0]
                        if k == want:
                            return st
                        if k in ('CP', 'CT') and cell == 'pat' or k == 'P' and cell == 'str':
                            return ERROR
                        raise UnknownIdiom('%s: matcher stored for a %s prefix is %s (not followed)' % (
                            f.qual, 'pattern-object' if cell == 'pat' else 'str', matcher_of(entry, env, cell)[1]))
                    if l[0] == 'S':
                        b = binds[int(l[1:])]
                        env[(b.targets[0] if isinstance(b, ast.Assign) else b.target).id] = ev(b.value, env, cell)
                    else:
                        for nm in clobbered[int(l[1:])]:
                            env[nm] = ('?', nm)
                    return tuple(env.get(k) for k in names)

                def edge_delta(st, a, b, l, cell=cell):
                    n = cfg.node(a)
                    if n.kind == 'test' and l in ('T', 'F'):
                        env = {k: v for k, v in zip(names, st) if v is not None}
                        r = edge_truth(n.ast, l == 'T', classifier(env, cell))
                        if r is not None and r != (cell == 'pat'):
                            return None
                    return st

                init = tuple(('P', prm) if k == prm else None for k in names)
                cex, _ns, _nt = flow.typestate(cfg, lab, delta, init, edge_delta=edge_delta)
                if cell == 'pat':
                    what = ('a prefix that already is a pattern object (has .match) is stored in the sink table as it is -- the very object, with its '
                            'flags; it is never recompiled from its .pattern text')
                    rw = ("add_sink(s, re.compile('/api/(?P<section>[a-z]+)', re.I)): GET /API/Users no longer reaches s (the recompiled pattern lost "
                          're.IGNORECASE) and falls to an older sink or to 404')
                else:
                    what = 'a str prefix is stored as re.compile(<the str>)'
                    rw = "add_sink(s, '/x'): the fallback scan calls .match on a str -- AttributeError (500) for every request no route matches"
                if cex is None:
                    run.ok(what, f.loc(call), '%s :: %s prefix' % (short(entry, 60), 'pattern-object' if cell == 'pat' else 'str'))
                else:
                    path, st, _reason = cex
                    env = {k: v for k, v in zip(names, st) if v is not None}
                    kind, origin = matcher_of(entry, env, cell)
                    run.fail(what, f, origin, where=f.loc(call), witness=flow.describe_path(cfg, path), runtime_witness=rw)


# ---------------------------------------------------------------------------
# R6 meta methods
# ---------------------------------------------------------------------------

def r6_meta(run):
    p = run.project
    consts = p.module('falcon.constants')
    meta = p.fold(consts, ast.Name('_META_METHODS', ast.Load()))
    if meta is UNKNOWN or not meta:
        raise AnchorError('falcon.constants._META_METHODS')
    for cq in (APP, ASGI_APP):
        c, val = p.lookup_class_attr(cq, '_META_METHODS')
        if val is None:
            raise AnchorError('%s._META_METHODS' % cq)
        v = p.fold(c.module, val, c)
        run.check(v is not UNKNOWN and set(v) == set(meta), 'App._META_METHODS is the set of meta methods of falcon.constants', cq, val,
                  where=c.loc(val))
    http = p.fold(consts, ast.Name('HTTP_METHODS', ast.Load()))
    if http is UNKNOWN:
        raise AnchorError('falcon.constants.HTTP_METHODS')
    run.check(not (set(meta) & set(http)) and 'OPTIONS' in http, 'no HTTP method is a meta method', 'falcon.constants', '_META_METHODS', where=consts.relpath)
    for q in (WSGI_CALL, ASGI_CALL):
        af = AppFlow(p, q)
        cfg = af.cfg
        run.use_cfg(cfg)
        tag = 'ASGI' if af.is_asgi else 'WSGI'

        def is_meta(e):
            return (isinstance(e, ast.Compare) and len(e.ops) == 1 and isinstance(e.ops[0], ast.In) and any(is_self_attr(c, '_META_METHODS') for c in e.comparators)
                    and isinstance(e.left, ast.Attribute) and e.left.attr == 'method')

        def is_not_meta(e):
            return (isinstance(e, ast.Compare) and len(e.ops) == 1 and isinstance(e.ops[0], ast.NotIn) and any(is_self_attr(c, '_META_METHODS') for c in e.comparators)
                    and isinstance(e.left, ast.Attribute) and e.left.attr == 'method')

        yes = _truth_edges(cfg, is_meta, True, neg=is_not_meta)
        no = _truth_edges(cfg, is_meta, False, neg=is_not_meta)
        if not yes or not no:
            # moved into the responder selection?  Then it must cover EVERY selection (route, sink, static route, 404):
            # a guard on the route-matched branch only lets WEBSOCKET-as-HTTP-method through to sinks and static routes
            g = p.func(APP + '._get_responder')
            gcfg = cfg_of(g, p)

            def is_meta_local(e):
                return (isinstance(e, ast.Compare) and len(e.ops) == 1 and isinstance(e.ops[0], ast.In)
                        and any(is_self_attr(c, '_META_METHODS') for c in e.comparators))

            tests = [n.id for n in gcfg.live_nodes() if n.kind == 'test' and any(is_meta_local(x) for x in walk_self(n.ast))]
            if not tests:
                raise AnchorError('%s: no test of req.method against self._META_METHODS' % q)
            run.use_cfg(gcfg)
            path = flow.find_path(gcfg, [gcfg.entry], [gcfg.exit], avoid_nodes=tests, edge_filter=flow.no_exc)
            run.check(path is None, '%s: the meta-method rejection covers every responder selection (route, sink, static route, not found)' % tag,
                      g, gcfg.node(tests[0]).ast, where='%s:%s' % (g.file, gcfg.node(tests[0]).lineno),
                      witness=flow.describe_path(gcfg, path) if path else None,
                      runtime_witness='an HTTP request with method WEBSOCKET to a path served by a sink or static route runs it instead of answering 400')
            continue
        events = []
        for lab_ in ('REQ', 'ROUTE', 'RSRC', 'RESP'):
            events += af.nodes_labelled(lab_)
        if not events:
            raise AnchorError('%s: no routing events' % q)
        for e in yes:
            # the meta branch only raises HTTPBadRequest
            path = flow.find_path(cfg, [e[1]], events + [cfg.exit], edge_filter=flow.no_exc)
            raises = [n for n in flow.reachable(cfg, [e[1]], edge_filter=flow.no_exc) if cfg.node(n).kind == 'stmt' and isinstance(cfg.node(n).ast, ast.Raise)]
            first = cfg.node(e[1])
            ok = path is None and first.kind == 'stmt' and isinstance(first.ast, ast.Raise) and first.ast.exc is not None
            if ok:
                fn = first.ast.exc.func if isinstance(first.ast.exc, ast.Call) else first.ast.exc
                ok = p.resolve_expr(af.func.module, fn, af.func) == 'falcon.errors.HTTPBadRequest'
            run.check(ok, '%s: a meta method (WEBSOCKET) on an HTTP request is rejected with HTTPBadRequest' % tag, af.func, cfg.node(e[0]).ast,
                      where='%s:%s' % (af.func.file, cfg.node(e[0]).lineno), witness=flow.describe_path(cfg, path) if path else None,
                      runtime_witness='an HTTP request with method WEBSOCKET reaching a responder')
        for n in events:
            run.check(n not in flow.reachable(cfg, [cfg.entry], avoid_edges=no), '%s: the meta-method test precedes every middleware / routing / responder event' % tag,
                      af.func, cfg.node(n).ast if cfg.node(n).ast is not None else cfg.node(n).text(), where='%s:%s' % (af.func.file, cfg.node(n).lineno))


# ---------------------------------------------------------------------------
# R7 static route matching only uses the normalised prefix
# ---------------------------------------------------------------------------

def r7_static_prefix(run):
    """StaticRoute.__init__ normalises the prefix (appends the trailing '/'
    when missing); match() decides with what the constructor stored.  Every
    prefix-derived attribute that match() reads must hold the NORMALISED form
    (bound after the normalisation, or computed from the stored prefix): an
    attribute captured before it has two spellings depending on how the route
    was registered ('/s' vs '/s/'), and the "bare prefix" comparison of a route
    with a fallback file then misses.  W: add_static_route('/s/', dir,
    fallback_filename=...); GET /s -> falls through to an older sink / 404."""
    p = run.project
    init = p.func('falcon.routing.static.StaticRoute.__init__')
    match = p.func('falcon.routing.static.StaticRoute.match')
    cfg = cfg_of(init, p)
    run.use_cfg(cfg)
    run.use(match)
    pparam = init.params()[1]
    norm = [n for n in cfg.live_nodes() if n.kind == 'test' and any(
        isinstance(x, ast.Call) and isinstance(x.func, ast.Attribute) and x.func.attr == 'endswith' and isinstance(x.func.value, ast.Name)
        and x.func.value.id == pparam for x in ast.walk(n.ast))]
    if len(norm) != 1:
        raise UnknownIdiom('StaticRoute.__init__: expected one trailing-slash normalisation test on %s, found %d' % (pparam, len(norm)))
    norm_id = norm[0].id
    after_norm = flow.reachable(cfg, [y for (y, _l) in cfg.succ[norm_id]], avoid_nodes=[norm_id])
    stored = {}
    for n in cfg.live_nodes():
        if n.kind == 'stmt' and isinstance(n.ast, (ast.Assign, ast.AnnAssign)) and n.ast.value is not None:
            tg = n.ast.targets if isinstance(n.ast, ast.Assign) else [n.ast.target]
            for t in tg:
                if isinstance(t, ast.Attribute) and isinstance(t.value, ast.Name) and t.value.id == 'self' \
                        and any(isinstance(x, ast.Name) and x.id == pparam for x in ast.walk(n.ast.value)):
                    stored.setdefault(t.attr, []).append(n)
    if not stored:
        raise AnchorError('StaticRoute.__init__ stores no attribute derived from the prefix')
    read = {x.attr for x in ast.walk(match.node) if isinstance(x, ast.Attribute) and isinstance(x.value, ast.Name) and x.value.id == 'self'}
    used = sorted(a for a in stored if a in read)
    if not used:
        raise AnchorError('StaticRoute.match reads no prefix-derived attribute')
    for a in used:
        for n in stored[a]:
            # bound strictly after the normalisation test, and not able to run again before it
            ok = n.id in after_norm and norm_id not in flow.reachable(cfg, [n.id], avoid_nodes=[])  # no path back to the test
            run.check(ok, 'self.%s, read by StaticRoute.match(), is bound from the prefix after its trailing-slash normalisation' % a, init, n.ast,
                      runtime_witness="add_static_route('/s/', dir, fallback_filename='index.html'); GET /s is not matched (an older sink answers, or 404)")
    _match_decides_on_raw_path(run, init, match, pparam, {a: [(n, n.id in after_norm) for n in stored[a]] for a in used})


# --- StaticRoute.match() evaluated over a finite domain of request paths -----

MATCH_FALLBACK_ATTR = '_fallback_filename'
# registered spelling -> normalised prefix (the constructor appends the missing '/')
MATCH_PREFIXES = (('/static', '/static/'), ('/static/', '/static/'), ('/', '/'))
# Raw request paths: textually under / not under the prefix, and spellings that
# only a NORMALISING reading (dot segments, repeated slashes, case, blanks)
# would put under it.
MATCH_PATHS = ('/static', '/static/', '/staticfoo', '/static/foo', '/static/a/b.txt', '/static//a', '/static/./a', '/static/..', '/static/../x',
               '/./static/a.txt', '/./static', '///static/a.txt', '//static/a.txt', '//static', '/x/../static/a', '/x/static/a', 'static/a',
               '/STATIC/a.txt', '/Static', ' /static/a', '/static ', '/static/ ', '/stati', '/statics/', '/', '', '//', '/.', '/x', 'x', '/static\n')
_STR_METHODS = {'startswith', 'endswith', 'strip', 'lstrip', 'rstrip', 'lower', 'upper', 'casefold', 'replace', 'split', 'rsplit', 'partition',
                'rpartition', 'removeprefix', 'removesuffix', 'find', 'rfind', 'count', 'join', 'isspace'}
_PURE_PATH_ATTRS = {'parents', 'parts', 'parent', 'name', 'anchor', 'root'}
_PURE_PATH_METHODS = {'is_relative_to', 'as_posix', 'is_absolute'}


def _pure_calls():
    """Frozen table: stdlib callables that are pure functions of their (text)
    arguments and may therefore be EXECUTED on the sample paths.  POSIX
    flavours stand in for the os.path / pathlib aliases (assumption of C16)."""
    import pathlib
    import posixpath
    import re as _re
    pp = pathlib.PurePosixPath
    return {
        'builtins.len': len, 'builtins.bool': bool, 'builtins.str': str, 'builtins.tuple': tuple, 'builtins.list': list,
        'builtins.any': any, 'builtins.all': all, 'builtins.min': min, 'builtins.max': max,
        'os.path.normpath': posixpath.normpath, 'posixpath.normpath': posixpath.normpath,
        'os.path.commonprefix': posixpath.commonprefix, 'posixpath.commonprefix': posixpath.commonprefix,
        'os.path.commonpath': posixpath.commonpath, 'posixpath.commonpath': posixpath.commonpath,
        'os.path.dirname': posixpath.dirname, 'posixpath.dirname': posixpath.dirname,
        'os.path.join': posixpath.join, 'posixpath.join': posixpath.join,
        'pathlib.PurePosixPath': pp, 'pathlib.PurePath': pp, 'pathlib.Path': pp, 'pathlib.PosixPath': pp,
        're.sub': _re.sub, 're.match': _re.match, 're.fullmatch': _re.fullmatch, 're.search': _re.search, 're.escape': _re.escape,
    }


class _MatchEval:
    """Concrete evaluation of StaticRoute.match() for one (self state, path).
    Reads: if / return / assignments to locals; constants, locals,
    `self.<attr>` of the given state, subscripts and slices, str methods of
    _STR_METHODS, the callables of _pure_calls(), comparisons, and/or/not,
    conditional expressions, tuples, `+`/`-`.  Anything else is UnknownIdiom."""

    def __init__(self, p, f: Func, state: Dict[str, object]):
        import pathlib
        self.p, self.f, self.state = p, f, state
        self.pure = _pure_calls()
        self.pure_path = pathlib.PurePosixPath
        self.self_name = f.params()[0]

    def unknown(self, e, why='is outside the evaluator'):
        return UnknownIdiom('%s: %s %s' % (self.f.qual, short(e, 90), why))

    def run(self, path_param: str, value: str):
        """-> (returned value, the ast.Return that produced it or None)."""
        env = {path_param: value}
        r = self.block(self.f.node.body, env)
        return r if r is not None else (None, None)

    def block(self, stmts, env):
        for s in stmts:
            if isinstance(s, ast.Expr) and isinstance(s.value, ast.Constant):
                continue
            if isinstance(s, ast.Pass):
                continue
            if isinstance(s, ast.Return):
                return (self.ev(s.value, env) if s.value is not None else None, s)
            if isinstance(s, ast.If):
                r = self.block(s.body if self.ev(s.test, env) else s.orelse, env)
                if r is not None:
                    return r
                continue
            if isinstance(s, (ast.Assign, ast.AnnAssign)) and s.value is not None:
                v = self.ev(s.value, env)
                for t in (s.targets if isinstance(s, ast.Assign) else [s.target]):
                    self.bind(t, v, env)
                continue
            raise self.unknown(s, 'is a statement the evaluator does not read')
        return None

    def bind(self, t, v, env):
        if isinstance(t, ast.Name):
            env[t.id] = v
        elif isinstance(t, (ast.Tuple, ast.List)) and isinstance(v, (tuple, list)) and len(v) == len(t.elts):
            for (x, y) in zip(t.elts, v):
                self.bind(x, y, env)
        else:
            raise self.unknown(t, 'is an assignment target the evaluator does not read')

    def ev(self, e, env):
        if isinstance(e, ast.Constant):
            return e.value
        if isinstance(e, ast.Name):
            if e.id in env:
                return env[e.id]
            raise self.unknown(e, 'is not a local of match()')
        if isinstance(e, ast.Attribute):
            if isinstance(e.value, ast.Name) and e.value.id == self.self_name:
                if e.attr in self.state:
                    return self.state[e.attr]
                raise self.unknown(e, 'is neither a prefix-derived attribute nor the fallback file name')
            v = self.ev(e.value, env)
            if isinstance(v, self.pure_path) and e.attr in _PURE_PATH_ATTRS:
                return getattr(v, e.attr)
            raise self.unknown(e)
        if isinstance(e, (ast.Tuple, ast.List)):
            vals = [self.ev(x, env) for x in e.elts]
            return tuple(vals) if isinstance(e, ast.Tuple) else vals
        if isinstance(e, ast.Subscript):
            v = self.ev(e.value, env)
            s = e.slice
            if isinstance(s, ast.Slice):
                idx = slice(*[None if x is None else self.ev(x, env) for x in (s.lower, s.upper, s.step)])
            else:
                idx = self.ev(s, env)
            return v[idx]
        if isinstance(e, ast.BoolOp):
            v = None
            for x in e.values:
                v = self.ev(x, env)
                if bool(v) != isinstance(e.op, ast.And):
                    return v
            return v
        if isinstance(e, ast.UnaryOp) and isinstance(e.op, ast.Not):
            return not self.ev(e.operand, env)
        if isinstance(e, ast.UnaryOp) and isinstance(e.op, ast.USub):
            return -self.ev(e.operand, env)
        if isinstance(e, ast.IfExp):
            return self.ev(e.body if self.ev(e.test, env) else e.orelse, env)
        if isinstance(e, ast.BinOp) and isinstance(e.op, (ast.Add, ast.Sub)):
            a, b = self.ev(e.left, env), self.ev(e.right, env)
            return a + b if isinstance(e.op, ast.Add) else a - b
        if isinstance(e, ast.Compare):
            left = self.ev(e.left, env)
            for op, c in zip(e.ops, e.comparators):
                right = self.ev(c, env)
                if not self.cmp(op, left, right, e):
                    return False
                left = right
            return True
        if isinstance(e, ast.Call):
            return self.call(e, env)
        raise self.unknown(e)

    def cmp(self, op, a, b, e):
        if isinstance(op, ast.Eq):
            return a == b
        if isinstance(op, ast.NotEq):
            return a != b
        if isinstance(op, ast.In):
            return a in b
        if isinstance(op, ast.NotIn):
            return a not in b
        if isinstance(op, ast.Is):
            return a is b
        if isinstance(op, ast.IsNot):
            return a is not b
        if isinstance(op, ast.Lt):
            return a < b
        if isinstance(op, ast.LtE):
            return a <= b
        if isinstance(op, ast.Gt):
            return a > b
        if isinstance(op, ast.GtE):
            return a >= b
        raise self.unknown(e)

    def call(self, c: ast.Call, env):
        if any(isinstance(a, ast.Starred) for a in c.args) or any(k.arg is None for k in c.keywords):
            raise self.unknown(c, 'uses star-arguments')
        fn = c.func
        q = self.p.resolve_expr(self.f.module, fn, self.f)
        if q in self.pure:
            args = [self.ev(a, env) for a in c.args]
            kw = {k.arg: self.ev(k.value, env) for k in c.keywords}
            return self.pure[q](*args, **kw)
        if isinstance(fn, ast.Attribute) and q is None:
            recv = self.ev(fn.value, env)
            ok = (isinstance(recv, str) and fn.attr in _STR_METHODS) or (isinstance(recv, self.pure_path) and fn.attr in _PURE_PATH_METHODS)
            if ok:
                args = [self.ev(a, env) for a in c.args]
                kw = {k.arg: self.ev(k.value, env) for k in c.keywords}
                return getattr(recv, fn.attr)(*args, **kw)
        raise self.unknown(c, 'is a call outside the frozen table of pure text functions')


def _match_decides_on_raw_path(run, init: Func, match: Func, pparam: str, stored):
    """match(path) == path.startswith(P) or (a fallback file is configured and
    path == P[:-1]), with P the NORMALISED prefix - decided on the RAW request
    path.  match() is executed abstractly (its text functions are pure) for both
    registered spellings of a prefix x with/without fallback x a finite set of
    raw paths, among them spellings that only a normalising reading (pathlib,
    normpath, strip, case folding, collapsing of '//' or '/./') would put under
    the prefix; every answer must agree with the string-prefix rule.
    W: a route with a fallback claims GET /./static/a.txt or ///static/a.txt
    (not under its prefix): the fallback file is served with 200 where an older
    sink or a 404 should answer."""
    p = run.project
    base = 'falcon.routing.static.StaticRoute'
    own = [q for q in sorted(p.subclasses(base)) if q != base and 'match' in p.classes[q].methods]
    if own:
        raise UnknownIdiom('%s overrides StaticRoute.match(); only the base implementation is evaluated' % own[0])
    params = match.params()
    a = match.node.args
    if len(params) != 2 or a.vararg or a.kwarg or a.kwonlyargs:
        raise UnknownIdiom('%s: signature %s (self, path expected)' % (match.qual, params))
    path_param = params[1]
    if not any(isinstance(n, ast.Attribute) and n.attr == MATCH_FALLBACK_ATTR and isinstance(n.ctx, ast.Store) for n in walk_self(init.node)):
        raise AnchorError('StaticRoute.__init__ does not store self.%s' % MATCH_FALLBACK_ATTR)
    for fallback in (None, '/srv/www/index.html'):
        bad = []
        n_eval = 0
        for (raw, norm) in MATCH_PREFIXES:
            state = {MATCH_FALLBACK_ATTR: fallback}
            for attr, nodes in stored.items():
                vals = set()
                for (n, after) in nodes:
                    ie = _MatchEval(p, init, {})
                    try:
                        vals.add(ie.ev(n.ast.value, {pparam: norm if after else raw}))
                    except UnknownIdiom:
                        raise
                    except Exception as ex:  # the constructor itself would raise for this spelling
                        raise UnknownIdiom('%s: evaluating %s raised %s' % (init.qual, short(n.ast.value), type(ex).__name__))
                if len(vals) != 1:
                    raise UnknownIdiom('%s: self.%s is bound to different values on different paths' % (init.qual, attr))
                state[attr] = vals.pop()
            me = _MatchEval(p, match, state)
            for path in MATCH_PATHS:
                want = path.startswith(norm) or (fallback is not None and path == norm[:-1])
                try:
                    got, ret = me.run(path_param, path)
                except UnknownIdiom:
                    raise
                except Exception as ex:
                    raise UnknownIdiom('%s: evaluating match(%r) raised %s: %s' % (match.qual, path, type(ex).__name__, ex))
                n_eval += 1
                if bool(got) != bool(want):
                    bad.append((ret, 'add_static_route(%r, dir%s): match(%r) -> %r, the prefix rule says %r'
                                % (raw, '' if fallback is None else ', fallback_filename=...', path, bool(got), bool(want))))
        tag = 'with a fallback file' if fallback is not None else 'without a fallback file'
        cons = bad[0][0] if bad and bad[0][0] is not None else 'match() %s' % tag
        run.check(not bad, 'StaticRoute.match() %s claims exactly the raw request paths that start with the normalised prefix%s '
                  '(decided on the path as received: no normalising reading of it)' % (tag, ' or equal it without the trailing slash' if fallback is not None else ''),
                  match, cons, where=match.loc(bad[0][0]) if bad and bad[0][0] is not None else match.loc(),
                  witness=[w for (_r, w) in bad[:8]] + (['... %d of %d evaluations disagree' % (len(bad), n_eval)] if len(bad) > 8 else []),
                  runtime_witness='GET /./static/a.txt or ///static/a.txt is claimed by a static route whose prefix it does not start with: '
                                  'the fallback file is served with 200 where an older sink or a 404 should answer')

# ---------------------------------------------------------------------------
# R9 the flavour flag of the default-responder helpers
# ---------------------------------------------------------------------------

# documented contract of the public helpers (docs/api/routing.rst "Custom Routers", the helpers' own Args sections:
# "asgi (bool): True if using an ASGI app, False otherwise (default False)"): called without the flag they serve a WSGI app
DEFAULT_FLAVOUR_IS_ASYNC = False


def _param_default(f: Func, name: str):
    """(has the parameter, its default expression or None)."""
    a = f.node.args
    pos = a.posonlyargs + a.args
    for i, x in enumerate(pos):
        if x.arg == name:
            k = i - (len(pos) - len(a.defaults))
            return True, (a.defaults[k] if k >= 0 else None)
    for x, d in zip(a.kwonlyargs, a.kw_defaults):
        if x.arg == name:
            return True, d
    return False, None


def _flag_argument(callee: Func, call: ast.Call, flag: str):
    """The expression a call passes for the callee's parameter `flag` (None when it relies on the default)."""
    if any(isinstance(x, ast.Starred) for x in call.args) or any(k.arg is None for k in call.keywords):
        raise UnknownIdiom('call %s spreads its arguments' % short(call, 80))
    for k in call.keywords:
        if k.arg == flag:
            return k.value
    a = callee.node.args
    pos = [x.arg for x in a.posonlyargs + a.args]
    if flag in pos and pos.index(flag) < len(call.args):
        return call.args[pos.index(flag)]
    return None


def _factory_flag(p, fac: Func) -> str:
    """The parameter of a responder factory whose truth selects the coroutine closure (read off the factory: every
    `return <async closure>` is dominated by the true outcome of a test of that parameter)."""
    closures = list(fac.nested.values())
    asyncs = [g for g in closures if g.is_async]
    if not asyncs or len(asyncs) == len(closures):
        raise AnchorError('%s: expected a sync and an async closure' % fac.qual)
    cfg = cfg_of(fac, p)
    rets = [n.id for n in cfg.live_nodes() if n.kind == 'stmt' and isinstance(n.ast, ast.Return) and isinstance(n.ast.value, ast.Name)
            and n.ast.value.id in {g.node.name for g in asyncs}]
    if not rets:
        raise UnknownIdiom('%s: the coroutine closure is not returned by name' % fac.qual)
    found = []
    for prm in fac.params():
        sel = _truth_edges(cfg, lambda e, prm=prm: isinstance(e, ast.Name) and e.id == prm, True)
        if sel and not (set(rets) & flow.reachable(cfg, [cfg.entry], avoid_edges=sel)):
            found.append(prm)
    return single(found, 'parameter whose truth selects the coroutine closure', fac.qual)


def r9_flavour_flag(run):
    """The helpers that hand out the default 405 / OPTIONS responders come in a sync and a coroutine flavour selected
    by one flag.  (a) Its default -- in both factories and in set_default_responders, the documented entry point of
    custom routers -- selects the WSGI flavour (the documented `asgi=False`; the flag is located by what it selects,
    the default is folded, not matched as text).  (b) No call site inside the framework relies on that default: each
    passes the flag, and set_default_responders passes its own flag on unchanged.
    W: WSGI App(router=custom) whose add_route() calls set_default_responders(method_map): POST on a GET-only
    resource answers 200 without Allow (a coroutine 405 responder is created and never awaited)."""
    p = run.project
    sdr = aliased_view(p, p.func(UTIL + '.set_default_responders'))      # (`create = responders.create_method_not_allowed; create(...)`)
    facs = [p.func(RESP + '.create_method_not_allowed'), p.func(RESP + '.create_default_options')]
    flags: Dict[str, str] = {fac.qual: _factory_flag(p, fac) for fac in facs}
    # the flag of set_default_responders: the one parameter that reaches the factories' flag
    passed = []
    inner_calls = []
    for c in walk_self(sdr.node):
        if isinstance(c, ast.Call):
            t = p.callee(sdr, c)
            if isinstance(t, Func) and t.qual in flags:
                inner_calls.append((c, t))
                v = _flag_argument(t, c, flags[t.qual])
                if isinstance(v, ast.Name) and v.id in sdr.params():
                    passed.append(v.id)
    if len(inner_calls) < 2:
        raise AnchorError('%s does not call both responder factories' % sdr.qual)
    if len(set(passed)) > 1:
        raise UnknownIdiom('%s hands different parameters to the factories\' flavour flag: %s' % (sdr.qual, sorted(set(passed))))
    if not passed:
        # no parameter reaches a factory flag at all: (b) below reports each site; there is no default to judge here
        sdr_flag = None
    else:
        sdr_flag = passed[0]
        flags[sdr.qual] = sdr_flag
    # (a) defaults
    for f in facs + [sdr]:
        flag = flags.get(f.qual)
        if flag is None:
            continue
        run.use(f)
        _has, d = _param_default(f, flag)
        if d is None:
            run.ok('the flavour flag %r of %s has no default: every caller chooses' % (flag, f.name), f.loc(), '%s(%s)' % (f.name, flag))
            continue
        v = p.fold(f.module, d, None, None)
        if v is UNKNOWN:
            raise UnknownIdiom('%s: default of %s does not fold to a constant: %s' % (f.qual, flag, short(d, 60)))
        run.check(bool(v) == DEFAULT_FLAVOUR_IS_ASYNC, 'called without the flavour flag %r, %s serves a WSGI app: the default selects the sync '
                  'responders (documented default False)' % (flag, f.name), f, '%s: %s = %s' % (f.name, flag, short(d, 40)), where=f.loc(),
                  runtime_witness='WSGI App(router=custom router calling %s(...) without the flag): an unimplemented method gets a coroutine '
                                  'responder that is never awaited: 200 without Allow instead of 405' % f.name)
    # (b) framework call sites
    targets = {f.qual: f for f in facs + [sdr]}
    names = {f.name for f in targets.values()}
    n_sites = 0
    for g in list(p.funcs.values()):
        if not any((isinstance(x, ast.Attribute) and x.attr in names) or (isinstance(x, ast.Name) and x.id in names) for x in walk_self(g.node)):
            continue
        g = aliased_view(p, g)      # (a call through a local alias of the helper is a call of the helper)
        for c in walk_self(g.node):
            if not isinstance(c, ast.Call):
                continue
            fn = c.func
            nm = fn.attr if isinstance(fn, ast.Attribute) else fn.id if isinstance(fn, ast.Name) else None
            if nm not in names:
                continue
            t = p.callee(g, c)
            if not isinstance(t, Func) or t.qual not in targets:
                continue
            flag = flags.get(t.qual)
            if flag is None:
                continue
            n_sites += 1
            v = _flag_argument(t, c, flag)
            ok = v is not None
            what = 'the framework\'s call of %s passes the flavour flag explicitly' % t.name
            if ok and g is sdr and sdr_flag is not None:
                ok = isinstance(v, ast.Name) and v.id == sdr_flag
                what += ' -- its own flag %r, unchanged' % sdr_flag
            run.check(ok, what, g, c, where=g.loc(c),
                      runtime_witness='an ASGI app gets sync default responders (add_route refuses every resource) or a WSGI app coroutine ones')
    if n_sites < 3:
        raise AnchorError('fewer than three framework call sites of the default-responder helpers resolved (%d)' % n_sites)


# ---------------------------------------------------------------------------
# R10 / R11 the default responders
# ---------------------------------------------------------------------------

FACTORIES = (RESP + '.create_method_not_allowed', RESP + '.create_default_options')


def _default_responders(p) -> List[Tuple[str, Func, str]]:
    """(role, def, flavour) of every default responder, found from its use:
    the targets of App._default_responder_* of both App classes, and every
    nested def that one of the two responder factories returns."""
    out: List[Tuple[str, Func, str]] = []
    for cq, flavour in ((APP, 'WSGI'), (ASGI_APP, 'ASGI')):
        p.cls(cq)
        for attr in (NOT_FOUND, BAD_REQ):
            tq = _class_attr_target(p, cq, attr)
            if not tq or tq not in p.funcs:
                raise AnchorError('%s.%s does not resolve to a function' % (cq, attr))
            out.append((attr, p.func(tq), flavour))
    for fq in FACTORIES:
        fac = p.func(fq)
        returned = []
        for n in walk_no_nested(fac.node):
            if isinstance(n, ast.Return) and n.value is not None:
                if not (isinstance(n.value, ast.Name) and n.value.id in fac.nested):
                    raise UnknownIdiom('%s: returns %s, not one of its nested defs' % (fq, short(n.value, 60)))
                returned.append(fac.nested[n.value.id])
        if len(returned) < 2:
            raise AnchorError('%s: expected a WSGI and an ASGI closure to be returned' % fq)
        for g in returned:
            out.append((fac.node.name, g, 'ASGI' if g.is_async else 'WSGI'))
    return out


def r10_default_responder_signature(run):
    """Both __call__ implementations invoke whatever _get_responder selected
    as `responder(req, resp, **params)` (R5), where params are the matched
    route's fields (any identifier the application chose) plus whatever
    process_resource middleware added.  So every default responder -- the
    404 / 400 functions and the closures of the two factories, WSGI and ASGI
    -- takes exactly two positional parameters and **kwargs: no further named
    parameter that a field could bind, and the catch-all must be there.
    W: `def options_responder(req, resp, allowed=allowed, **kwargs)`: route
    /acl/{allowed}, OPTIONS /acl/v17 -> `Allow: v17`;  `async def
    bad_request_async(req, resp)`: route /items/{item_id}, method BREW ->
    TypeError -> 500 instead of 400."""
    p = run.project
    seen = set()
    for role, g, flavour in _default_responders(p):
        if g.qual in seen:
            continue
        seen.add(g.qual)
        a = g.node.args
        positional = [x.arg for x in a.posonlyargs + a.args]
        named_extra = positional[2:] + [x.arg for x in a.kwonlyargs]
        sig = '(%s)' % ', '.join(positional + (['*' + a.vararg.arg] if a.vararg else []) + [x.arg for x in a.kwonlyargs]
                                 + (['**' + a.kwarg.arg] if a.kwarg else []))
        run.check(not named_extra and (len(positional) == 2 or (a.vararg is not None and len(positional) < 2)),
                  '%s default responder %s (%s) has exactly the two positional parameters (req, resp) besides its catch-all: every other named '
                  'parameter can be bound by a route field of that name' % (flavour, g.node.name, role), g,
                  'def %s%s [named parameters]' % (g.node.name, sig), where=g.loc(),
                  witness=['parameter %r is bound by a route field named %r (responder(req, resp, **params))' % (x, x) for x in named_extra] or None,
                  runtime_witness='route /acl/{allowed} + the automatic OPTIONS responder with a parameter `allowed`: OPTIONS /acl/v17 answers '
                                  '`Allow: v17`')
        run.check(a.kwarg is not None, '%s default responder %s (%s) accepts arbitrary keyword arguments (**kwargs): it is called with the '
                  'matched route\'s fields' % (flavour, g.node.name, role), g, 'def %s%s [catch-all]' % (g.node.name, sig), where=g.loc(),
                  runtime_witness='route /items/{item_id}, request method BREW: responder(req, resp, item_id=...) raises TypeError -> 500 '
                                  'instead of 400 (405 / OPTIONS / 404 likewise)')


def r11_default_responders_unconditional(run):
    """The 404 and 400 default responders decide nothing: whatever the
    request, `_default_responder_path_not_found` ends in HTTPRouteNotFound
    and `_default_responder_bad_request` in HTTPBadRequest -- the ONLY
    exception class that can leave them (E5 summary closed over the callees),
    no normal return, no call whose outcome is unknown; the WSGI and ASGI
    twins raise the same class.  W: path_not_found_async first awaits
    bad_request_async for methods outside COMBINED_METHODS: `BREW /nowhere`
    is answered 400 by the ASGI app and 404 by the WSGI app."""
    from ..escape import Escape
    p = run.project
    E = Escape(p)
    want = {NOT_FOUND: 'falcon.errors.HTTPNotFound', BAD_REQ: 'falcon.errors.HTTPBadRequest'}
    got: Dict[str, Dict[str, Tuple[Func, FrozenSet[str]]]] = {}
    for role, g, flavour in _default_responders(p):
        if role not in want:
            continue
        cfg = cfg_of(g, p)
        run.use_cfg(cfg)
        summ = _escaping_classes(p, E, g)
        # every call of the body is either the construction of the raised exception or resolved (and so part of the summary)
        raised_ctor = {id(n.ast.exc) for n in cfg.live_nodes() if n.kind == 'stmt' and isinstance(n.ast, ast.Raise) and n.ast.exc is not None}
        for n in cfg.live_nodes():
            for c in n.calls():
                if id(c) in raised_ctor:
                    continue
                t = p.callee(g, c)
                if not isinstance(t, (Func, Class)):
                    raise UnknownIdiom('%s: call %s is not resolved: what it can raise is unknown' % (g.qual, short(c, 60)))
        dead_ends = _no_return_nodes(p, g, cfg)
        returns = cfg.exit in flow.reachable(cfg, [cfg.entry], avoid_nodes=dead_ends)
        path = flow.find_path(cfg, [cfg.entry], [cfg.exit], avoid_nodes=dead_ends) if returns else None
        run.check(not returns, '%s %s never returns normally' % (flavour, role), g, '%s [returns]' % g.node.name, where=g.loc(),
                  witness=flow.describe_path(cfg, path) if path else None,
                  runtime_witness='a request that matched nothing is answered 200 with an empty body')
        others = sorted(q for q in summ if p.is_subclass(q, want[role]) is not True)
        mine = frozenset(q for q in summ if p.is_subclass(q, want[role]) is True)
        run.check(bool(mine) and not others, '%s %s raises %s on every request: no other exception class can leave it' % (
            flavour, role, want[role].rsplit('.', 1)[1]), g, '%s [raises %s]' % (g.node.name, ', '.join(sorted(x.rsplit('.', 1)[1] for x in summ)) or 'nothing'),
            where=g.loc(), witness=['%s: %s' % (q, ' <- '.join('%s %s' % (w, t) for (w, t) in summ[q][:3])) for q in others] or None,
            runtime_witness='BREW /nowhere (no route, sink or static route matches): 400 instead of 404 from the ASGI app')
        got.setdefault(role, {})[flavour] = (g, frozenset(summ))
    for role, by in sorted(got.items()):
        if set(by) != {'WSGI', 'ASGI'}:
            raise AnchorError('%s: WSGI and ASGI default responder not both found' % role)
        (gw, sw), (ga, sa_) = by['WSGI'], by['ASGI']
        run.check(sw == sa_, 'the WSGI and ASGI %s raise the same exception classes' % role, ga,
                  '%s / %s [raised classes]' % (gw.node.name, ga.node.name), where=ga.loc(),
                  witness=['%s: %s' % (gw.node.name, sorted(sw)), '%s: %s' % (ga.node.name, sorted(sa_))] if sw != sa_ else None)


def check(run):
    run.assume('router.find() returns None or a tuple whose first component is the resource (None for legacy routers that found nothing)')
    run.assume('list.insert(0, x) / append / + / tuple() / reversed() / .reverse() / slicing have their standard ordering semantics; the rebuild of the combined '
               'table is evaluated on symbolic two-element lists for both values of the order option')
    run.assume('sink prefixes are regular expressions whose semantics are not analysed')
    run.rule('R1', r1_route_masks, 'a route masks fallbacks; first match wins; no match selects the 404 default', floor=9)
    run.rule('R2', r2_recency, 'sinks and static routes are seen newest-first in both option modes (rebuild evaluated on symbolic lists); '
             'registration always inserts and never removes', floor=10)
    run.rule('R3', r3_refresh, 'derived table refreshed after every change; group order follows the flag and every entry is listed once '
             '(rebuild evaluated on symbolic lists)', floor=8)
    run.rule('R4', r4_allow, 'Allow computation for 405 and the automatic OPTIONS responder', floor=24)
    run.rule('R5', r5_suffix_kwargs, 'suffixed lookups, sink kwargs, **params', floor=10)
    run.rule('R6', r6_meta, 'meta methods rejected before any routing event', floor=15)
    run.rule('R7', r7_static_prefix, 'static route matching uses only the normalised prefix', floor=1)
    # "a route always masks sinks and static routes" holds only while the compiled finder knows every accepted
    # route: a finder kept across an add_route() that gave an existing intermediate node its resource sends the
    # request to the fallbacks (shared with C01 R10)
    from . import c01 as _c01

    run.rule('R8', _c01.r10_finder_invalidated, 'every accepted add_route invalidates or rebuilds the compiled finder, so a newly added route masks the '
             'fallbacks from its first request on (shared with C01 R10)', floor=3)
    run.rule('R9', r9_flavour_flag, 'the flavour flag of set_default_responders / the responder factories defaults to the WSGI flavour and every framework call site passes it', floor=6)
    run.rule('R10', r10_default_responder_signature, 'every default responder takes (req, resp, **kwargs): no named parameter a route field could bind, and the catch-all is there', floor=16)
    run.rule('R11', r11_default_responders_unconditional, 'the 404 / 400 default responders raise their error on every request (no other class can leave them), WSGI and ASGI alike', floor=10)
    run.rule('R12', r12_sink_prefix_identity, 'a sink prefix that already is a pattern object is stored as it is (never recompiled from .pattern: the flags would be lost); a str prefix is compiled', floor=2)
