"""C03 - middleware / hook / responder discipline (DESIGN.md section 3, C03)."""

from __future__ import annotations

import ast
from typing import List

from .. import flow
from ..cfg import cfg_of
from ..flow import ERROR
from ..model import AnchorError, UnknownIdiom, dotted, short
from .appflow import ASGI_CALL, WSGI_CALL, AppFlow
from .common import (find_calls, implied, is_self_attr, method_call, nodes_within, single, strip_await, walk_self)


def _region(af: AppFlow):
    """Top-level statements from the first protected try to the render try."""
    body = af.func.node.body
    first = None
    # the first protected region is the top-level try that holds the request loops
    loops = set(id(lp) for lp in af.req_loops)
    for i, s in enumerate(body):
        if isinstance(s, ast.Try) and any(id(x) in loops for x in walk_self(s)):
            first = i
            break
    last = None
    for i, s in enumerate(body):
        if s is af.render_try:
            last = i
    if first is None or last is None or last < first:
        raise AnchorError('%s: request-processing region not found' % af.func.qual)
    return body[first:last + 1], first, last


def _projection(af: AppFlow):
    stmts, first, last = _region(af)
    region = nodes_within(af.cfg, stmts)
    start = single([i for i in af.cfg.nodes_for(stmts[0]) if af.cfg.node(i).kind == 'join'], 'start of first try', af.func.qual)

    def lab(n):
        return [l for l in af.labels(n) if l.lstrip('^') not in ('START', 'SEND')] if n.id in region else []

    def elab(a, b, l):
        if a not in region:
            return None
        if l == 'exc':
            # only edges to the app-level protection (except Exception), to a
            # finally copy or out of the function; narrower inner handlers
            # (e.g. the AttributeError fallback of the inlined render) are
            # implementation detail
            tgt = af.cfg.node(b)
            if tgt.kind == 'handler' and not _is_app_handler(tgt):
                return None
        return af.edge_label(a, b, l)

    nfa = flow.project(af.cfg, lab, accept_exit=True, accept_xexit='!raise', edge_labeler=elab, start=start)
    return flow.determinise(nfa), region


def r1_sibling_equal(run):
    w = AppFlow(run.project, WSGI_CALL)
    a = AppFlow(run.project, ASGI_CALL)
    run.use_cfg(w.cfg)
    run.use_cfg(a.cfg)
    dw, _ = _projection(w)
    da, _ = _projection(a)
    diff = flow.language_diff(dw, da)
    run.extra['c03_r1_dfa_states'] = {'wsgi': len(dw.trans), 'asgi': len(da.trans)}
    for wd in flow.words(dw, limit=4, maxlen=40):
        run.sample({'rule': 'R1', 'accepted_event_trace': wd})
    if diff is None:
        run.ok('event languages of WSGI and ASGI __call__ over the middleware alphabet are equal (after await-erasure)',
               '%s ~ %s' % (w.func.loc(), a.func.loc()))
    else:
        word, which = diff
        side = w if which == 'left-only' else a
        run.fail('event trace accepted by %s only: %s' % ('WSGI' if which == 'left-only' else 'ASGI', ' '.join(word)),
                 side.func, 'event-language(%s)' % ('wsgi-only' if which == 'left-only' else 'asgi-only') + ' ' + ' '.join(word[-6:]),
                 witness=['trace: ' + ' '.join(word)],
                 runtime_witness='a middleware stack/action assignment on which the WSGI and ASGI apps make different call sequences')


def _discipline(run, qual):
    af = AppFlow(run.project, qual)
    cfg = af.cfg
    run.use_cfg(cfg)
    tag = 'ASGI' if af.is_asgi else 'WSGI'
    f = af.func

    def path_desc(path):
        return flow.describe_path(cfg, path)

    # (a)+(c)+(d)+(g): typestate over (cpl, failed, flag)
    #   cpl in {u,n,p}: last knowledge of resp.complete (unknown/negative/positive)
    #   failed: an exception left the request/route/resource/responder region
    #   flag: success flag value {unset,F,T}
    def delta(st, lab):
        cpl, failed, flag, resp_done, routed = st
        if lab == 'ROUTE':
            routed = True
        if lab in ('REQ', 'RSRC', 'RESP', 'ROUTE'):
            if failed:
                return ERROR
            if cpl != 'n':
                # user code ran (or complete was seen true) since complete was
                # last known to be false
                return ERROR
            if lab == 'RESP':
                resp_done = True
            if lab != 'ROUTE':
                cpl = 'u'
            return (cpl, failed, flag, resp_done, routed)
        if lab in ('OK', 'FLAG?'):
            # a computed (non-constant) value may be true: it is held to the
            # same conditions as the literal True
            if failed or not (resp_done or cpl == 'p'):
                return ERROR
            return (cpl, failed, 'T', resp_done, routed)
        if lab == 'FAIL':
            return (cpl, failed, 'F', resp_done, routed)
        if lab == 'PRESP':
            if flag == 'unset':
                return ERROR
            return (cpl, False, flag, resp_done, routed)
        return st

    region_nodes = set()
    for lab in ('REQ', 'RSRC', 'RESP', 'ROUTE', 'META'):
        region_nodes.update(af.nodes_labelled(lab))
    # raise HTTPBadRequest() inside the META branch
    stmts, _, _ = _region(af)
    first_try = stmts[0]
    inner = nodes_within(cfg, first_try.body) | nodes_within(cfg, first_try.orelse)

    def edge_delta(st, a, b, l):
        cpl, failed, flag, resp_done, routed = st
        if l == 'exc' and a in inner and cfg.node(b).kind in ('handler', 'xexit'):
            # exception leaves the protected request/responder region
            if cfg.node(b).kind == 'handler' and cfg.node(b).stmt in _trys_inside(first_try) and cfg.node(b).stmt is not first_try and not _is_app_handler(cfg.node(b)):
                return st
            failed = True
        lab = af.edge_label(a, b, l)
        if lab:
            for part in lab.split('.'):
                if part == 'CPL+':
                    cpl = 'p'
                elif part == 'CPL-':
                    cpl = 'n'
                elif part == 'RES+' and not routed:
                    # the resource local is None until routing assigned it
                    return None
        return (cpl, failed, flag, resp_done, routed)

    inner_all = nodes_within(cfg, [first_try])
    # a freshly constructed response is not complete
    init = ('n', False, 'unset', False, False)
    cex, nst, ntr = flow.typestate(cfg, af.labels, delta, init, edge_delta=edge_delta)
    run.extra.setdefault('c03_typestate', {})[tag] = {'states': nst, 'transitions': ntr}
    if cex is None:
        run.ok('%s: REQ stops at first complete; ROUTE/RESP only with complete false and nothing raised; '
               'RSRC/RESP never after an exception; OK only after RESP or a completed response; flag initialised before PRESP' % tag,
               f.loc())
    else:
        path, st, reason = cex
        bad = cfg.node(path[-1])
        run.fail('%s discipline violated: %s' % (tag, reason), f, bad.ast if bad.ast is not None else bad.text(),
                 where='%s:%s' % (f.file, bad.lineno), witness=path_desc(path),
                 runtime_witness='a middleware/responder action assignment following the witness path')

    # (b) RSRC only under truthy resource
    for nid in af.nodes_labelled('RSRC'):
        ok = any(flow.dominated_by_edge(cfg, nid, e) for e in af.edges_labelled('RES+'))
        run.check(ok, '%s: process_resource call is dominated by a truthy test of the routed resource' % tag, f,
                  cfg.node(nid).ast, where='%s:%s' % (f.file, cfg.node(nid).lineno))

    # (e) OK reachable only over non-exceptional edges
    for nid in af.nodes_labelled('OK') + af.nodes_labelled('FLAG?'):
        back = flow.co_reachable(cfg, [nid])
        fwd = flow.reachable(cfg, [cfg.entry])
        bad_edges = [(x, y) for x in back & fwd & inner_all for (y, l) in cfg.succ[x] if l == 'exc' and y in back]
        run.check(not bad_edges, '%s: success flag is set true only on a path without any exceptional edge' % tag, f,
                  cfg.node(nid).ast, where='%s:%s' % (f.file, cfg.node(nid).lineno),
                  witness=[cfg.node(x).text() for (x, _y) in bad_edges[:3]])

    # (f) FAIL on the handler path of PRESP and of rendering
    presp = af.nodes_labelled('PRESP')
    presp_iter = single([i for i in cfg.nodes_for(af.resp_loops[0]) if cfg.node(i).kind == 'iter'], 'response loop header', f.qual)
    fail_nodes = set(af.nodes_labelled('FAIL'))
    for kind, srcs in (('process_response', presp), ('body rendering', sorted(af.render_nodes))):
        handlers = set()
        for s in srcs:
            for (y, l) in cfg.succ[s]:
                if l == 'exc' and cfg.node(y).kind == 'handler':
                    handlers.add(y)
        handlers = {h for h in handlers if _is_app_handler(cfg.node(h))}
        if not handlers:
            run.fail('%s: %s is not inside a try with an except arm' % (tag, kind), f, '%s-unprotected' % kind)
            continue
        for h in sorted(handlers):
            # all normal continuations out of the handler pass a FAIL assignment
            goals = {presp_iter, cfg.exit} | set(af.nodes_labelled('SEND')) | set(af.nodes_labelled('START'))
            path = flow.find_path(cfg, [h], goals, avoid_nodes=fail_nodes)
            run.check(path is None, '%s: a handled failure of %s clears the success flag before processing continues' % (tag, kind),
                      f, cfg.node(h).ast.type if cfg.node(h).ast.type is not None else 'except', where='%s:%s' % (f.file, cfg.node(h).lineno),
                      witness=path_desc(path) if path else None)

    # (h) response loop is reached after every handled failure of the first regions
    for e in af.edges_labelled('HOK'):
        src = e[0]
        if src in nodes_within(cfg, [first_try]):
            path = flow.find_path(cfg, [e[1]], [cfg.exit], avoid_nodes=[presp_iter])
            run.check(path is None, '%s: after a handled exception the process_response loop still runs' % tag, f,
                      cfg.node(src).ast, where='%s:%s' % (f.file, cfg.node(src).lineno), witness=path_desc(path) if path else None)
    # normal path too
    for nid in af.nodes_labelled('OK'):
        path = flow.find_path(cfg, [nid], [cfg.exit], avoid_nodes=[presp_iter], edge_filter=flow.no_exc)
        run.check(path is None, '%s: the process_response loop runs after a successful responder' % tag, f, cfg.node(nid).ast,
                  where='%s:%s' % (f.file, cfg.node(nid).lineno))

    # (i) each PRESP call individually wrapped: the loop continues after a handled failure
    for nid in presp:
        hs = [y for (y, l) in cfg.succ[nid] if l == 'exc' and cfg.node(y).kind == 'handler']
        ok = bool(hs) and all(presp_iter in flow.reachable(cfg, [h], avoid_nodes=[cfg.exit]) for h in hs)
        run.check(ok, '%s: a failing process_response does not skip the remaining ones (handler is inside the loop)' % tag, f,
                  cfg.node(nid).ast, where='%s:%s' % (f.file, cfg.node(nid).lineno))

    # dependent mode: every component's response method is queued, also for the
    # components AFTER one that completed the response (only an exception ends
    # the walk early): the loop that queues has no normal exit but exhaustion
    push_nodes = set(af.nodes_labelled('PUSH_HEAD')) | set(af.nodes_labelled('PUSH_OTHER'))
    for lp in af.req_loops:
        inside = nodes_within(cfg, [lp])
        if not (inside & push_nodes):
            continue
        early = []
        live = {n.id for n in cfg.live_nodes()}

        def exits(stmts, in_nested=False):
            for st in stmts:
                if isinstance(st, ast.Return) or (isinstance(st, ast.Break) and not in_nested):
                    if any(i in live for i in cfg.nodes_for(st)):
                        early.append((sorted(cfg.nodes_for(st))[0], None, 'break'))
                for fld in ('body', 'orelse', 'finalbody', 'handlers'):
                    sub = getattr(st, fld, None)
                    if isinstance(sub, list):
                        sub = [h for h in sub]
                        nested = in_nested or isinstance(st, (ast.For, ast.AsyncFor, ast.While))
                        exits([x for x in sub if isinstance(x, ast.stmt)] + [y for x in sub if isinstance(x, ast.ExceptHandler) for y in x.body],
                              nested if fld == 'body' else in_nested)

        exits(lp.body)
        run.check(not early, '%s: in dependent mode the request loop ends only by exhaustion or an exception, so that every later '
                             'component\'s process_response is still queued after one completes the response' % tag, f,
                  cfg.node(early[0][0]).ast if early and cfg.node(early[0][0]).ast is not None else lp.iter,
                  where='%s:%s' % (f.file, cfg.node(early[0][0]).lineno if early else lp.lineno),
                  runtime_witness='independent_middleware=False, component 1 completes the response in process_request, component 2 has only '
                                  'process_response: it is never called')

    # REQ loop(s): PUSH after REQ in the same iteration, head insertion
    for nid in af.nodes_labelled('PUSH_OTHER'):
        run.fail('%s: dependent response stack must be head-inserted (response methods run bottom-up)' % tag, f, cfg.node(nid).ast)
    for nid in af.nodes_labelled('PUSH_HEAD'):
        # exceptional edge out of REQ must not reach PUSH within the same iteration
        req_nodes = af.nodes_labelled('REQ')
        bad = None
        for r in req_nodes:
            for (y, l) in cfg.succ[r]:
                if l == 'exc' and nid in flow.reachable(cfg, [y]):
                    bad = r
        # and REQ precedes PUSH: PUSH must not reach a REQ of the same iteration without passing the loop header
        loop_iters = [i for lp in af.req_loops for i in cfg.nodes_for(lp) if cfg.node(i).kind == 'iter']
        later_req = [r for r in req_nodes if r in flow.reachable(cfg, [nid], avoid_nodes=loop_iters) and r != nid]
        run.check(bad is None and not later_req,
                  '%s: in dependent mode a component\'s process_response is queued (head-inserted) after its own process_request returned' % tag,
                  f, cfg.node(nid).ast, where='%s:%s' % (f.file, cfg.node(nid).lineno))


def _trys_inside(t):
    return [x for x in walk_self(t) if isinstance(x, ast.Try)]


def _is_app_handler(node):
    """except arm that catches Exception (the app-level protection)."""
    h = node.ast
    if not isinstance(h, ast.ExceptHandler):
        return False
    if h.type is None:
        return True
    return isinstance(h.type, ast.Name) and h.type.id in ('Exception', 'BaseException')


def r2_discipline(run):
    _discipline(run, WSGI_CALL)
    _discipline(run, ASGI_CALL)


# ---------------------------------------------------------------------------
# R3 prepare_middleware stack polarity
# ---------------------------------------------------------------------------

def _returned_roles(f):
    """Names returned as (request, resource, response) stacks."""
    rets = [n for n in walk_self(f.node) if isinstance(n, ast.Return) and n.value is not None]
    r = single(rets, 'return statement', f.qual)
    v = r.value
    if not (isinstance(v, ast.Tuple) and len(v.elts) >= 2):
        raise UnknownIdiom('%s: return shape %s' % (f.qual, short(v)))
    out = []
    for e in v.elts:
        rev = False
        inner = e
        if isinstance(inner, ast.Call) and isinstance(inner.func, ast.Name) and inner.func.id == 'tuple' and inner.args:
            inner = inner.args[0]
        if isinstance(inner, ast.Call) and isinstance(inner.func, ast.Name) and inner.func.id == 'reversed' and inner.args:
            rev = True
            inner = inner.args[0]
        if isinstance(inner, ast.Subscript) and short(inner.slice) == '::-1':
            rev = True
            inner = inner.value
        if not isinstance(inner, ast.Name):
            raise UnknownIdiom('%s: returned stack %s' % (f.qual, short(e)))
        out.append((inner.id, rev))
    return out


def _insertions(f, name, handled=()):
    out = []
    for c in walk_self(f.node):
        if id(c) in handled:
            continue
        if isinstance(c, ast.Call) and isinstance(c.func, ast.Attribute) and isinstance(c.func.value, ast.Name) and c.func.value.id == name:
            if c.func.attr == 'append':
                out.append(('tail', c))
            elif c.func.attr == 'appendleft' and len(c.args) == 1:
                out.append(('head', c))  # collections.deque: appendleft(x) is insert(0, x)
            elif c.func.attr == 'insert':
                pos = c.args[0] if c.args else None
                if isinstance(pos, ast.Constant) and pos.value == 0:
                    out.append(('head', c))
                else:
                    out.append(('other', c))
            elif c.func.attr in ('extend', 'reverse', 'sort', 'pop', 'remove', 'clear'):
                out.append(('other', c))
    return out


def _post_reversals(f, names):
    """In-place reversals of a whole stack AFTER every insertion into it:
    top-level, unconditional `name.reverse()` statements of the function that
    follow the last top-level statement inserting into `name`.  Building a
    list by append() and reversing it once at the end is the same list as
    building it by insert(0, .): reverse(insert_head(L, x)) == append(reverse(L), x),
    so each such reversal flips the polarity of every earlier insertion
    exactly.  Returns ({name: parity}, {id(call) handled}); a reversal in any
    other position (conditional, inside the loop, before an insertion) is an
    idiom this rule cannot read."""
    body = f.node.body
    parity = {n: 0 for n in names}
    handled = set()

    def inserts_into(st, name):
        return any(isinstance(c, ast.Call) and isinstance(c.func, ast.Attribute) and isinstance(c.func.value, ast.Name)
                   and c.func.value.id == name and c.func.attr in ('append', 'insert', 'extend', 'appendleft') for c in walk_self(st))

    for name in names:
        last_ins = max([i for i, st in enumerate(body) if inserts_into(st, name)] or [-1])
        for i, st in enumerate(body):
            is_rev = (isinstance(st, ast.Expr) and isinstance(st.value, ast.Call) and isinstance(st.value.func, ast.Attribute)
                      and isinstance(st.value.func.value, ast.Name) and st.value.func.value.id == name
                      and st.value.func.attr == 'reverse' and not st.value.args and not st.value.keywords)
            if is_rev and i > last_ins >= 0:
                parity[name] ^= 1
                handled.add(id(st.value))
    for c in walk_self(f.node):
        if isinstance(c, ast.Call) and isinstance(c.func, ast.Attribute) and isinstance(c.func.value, ast.Name) \
                and c.func.value.id in names and c.func.attr == 'reverse' and id(c) not in handled:
            raise UnknownIdiom('%s: %s is reversed in a position this rule cannot read (%s)' % (f.qual, c.func.value.id, short(c)))
    return parity, handled


class _Unevaluable(Exception):
    pass


def _distribution_table(run, f, roles, role_of, mode):
    """Abstract evaluation of the per-component tail of prepare_middleware on
    the 16 component shapes x modes: which stack receives what, where.
    Returns {(has_req, has_res, has_resp, independent): set of events} or
    raises _Unevaluable.  An event is (stack role, 'head'|'tail', item kind)."""
    stack_role = {roles[0][0]: 'request', roles[1][0]: 'resource', roles[2][0]: 'response'}
    # a stack reversed as a whole after the loop (in place, or reversed() in the return): every insertion flips
    post_rev, _handled = _post_reversals(f, list(stack_role))
    reversed_roles = {stack_role[n] for (n, rev) in roles if bool(rev) != bool(post_rev[n])}
    loops = [n for n in walk_self(f.node) if isinstance(n, ast.For)
             and any(isinstance(c, ast.Call) and isinstance(c.func, ast.Attribute) and isinstance(c.func.value, ast.Name)
                     and c.func.value.id in stack_role and c.func.attr in ('append', 'insert', 'appendleft') for c in walk_self(n))]
    # the outermost loop that contains the insertions (the loop over components)
    loops = [lp for lp in loops if not any(lp is not o and any(x is lp for x in walk_self(o)) for o in loops)]
    if len(loops) != 1:
        raise _Unevaluable('component loop not identified')
    body = loops[0].body

    def atom(e, env):
        if isinstance(e, ast.Name):
            if e.id == mode:
                return env['mode']
            r = role_of(e.id)
            if len(r) == 1:
                return env[next(iter(r))]
        raise _Unevaluable('atom %s' % short(e))

    def ev(e, env):
        if isinstance(e, ast.Name):
            return atom(e, env)
        if isinstance(e, ast.UnaryOp) and isinstance(e.op, ast.Not):
            return not ev(e.operand, env)
        if isinstance(e, ast.BoolOp):
            vals = [ev(v, env) for v in e.values]
            return all(vals) if isinstance(e.op, ast.And) else any(vals)
        if isinstance(e, ast.Compare) and len(e.ops) == 1 and isinstance(e.comparators[0], ast.Constant) and e.comparators[0].value is None \
                and isinstance(e.ops[0], (ast.Is, ast.IsNot)):
            v = atom(e.left, env)
            return (not v) if isinstance(e.ops[0], ast.Is) else v
        raise _Unevaluable('test %s' % short(e))

    def has_insertion(st):
        return any(isinstance(c, ast.Call) and isinstance(c.func, ast.Attribute) and isinstance(c.func.value, ast.Name)
                   and c.func.value.id in stack_role for c in walk_self(st))

    def always_exits(stmts):
        for st in stmts:
            if isinstance(st, (ast.Continue, ast.Raise, ast.Return, ast.Break)):
                return True
            if isinstance(st, ast.If) and st.orelse and always_exits(st.body) and always_exits(st.orelse):
                return True
        return False

    def item_kind(e, env):
        if isinstance(e, ast.IfExp):
            return item_kind(e.body if ev(e.test, env) else e.orelse, env)
        if isinstance(e, ast.Tuple):
            return 'pair(%s)' % ','.join(item_kind(x, env) for x in e.elts)
        if isinstance(e, ast.Name):
            r = role_of(e.id)
            if len(r) == 1:
                return next(iter(r)).replace('process_', '')
        raise _Unevaluable('item %s' % short(e))

    def run_block(stmts, env, events):
        """returns True when the iteration ended (continue/raise)"""
        for st in stmts:
            if isinstance(st, (ast.Continue, ast.Raise, ast.Return, ast.Break)):
                return True
            if isinstance(st, ast.If):
                if has_insertion(st):
                    br = st.body if ev(st.test, env) else st.orelse
                    if run_block(br, env, events):
                        return True
                else:
                    try:
                        t = ev(st.test, env)
                    except _Unevaluable:
                        continue  # validation of the component (coroutine-ness...): assumed to pass
                    br = st.body if t else st.orelse
                    if br and always_exits(br):
                        return True
                continue
            if isinstance(st, ast.Expr) and isinstance(st.value, ast.Call) and has_insertion(st):
                c = st.value
                if not (isinstance(c.func, ast.Attribute) and isinstance(c.func.value, ast.Name) and c.func.value.id in stack_role):
                    raise _Unevaluable('statement %s' % short(st))
                role = stack_role[c.func.value.id]
                if c.func.attr == 'append' and len(c.args) == 1:
                    events.append((role, 'tail', item_kind(c.args[0], env)))
                elif c.func.attr == 'insert' and len(c.args) == 2 and isinstance(c.args[0], ast.Constant) and c.args[0].value == 0:
                    events.append((role, 'head', item_kind(c.args[1], env)))
                elif c.func.attr == 'appendleft' and len(c.args) == 1:
                    events.append((role, 'head', item_kind(c.args[0], env)))
                else:
                    raise _Unevaluable('insertion %s' % short(c))
                continue
            if has_insertion(st):
                raise _Unevaluable('insertion inside %s' % type(st).__name__)
        return False

    table = {}
    for rq in (False, True):
        for rs in (False, True):
            for rp in (False, True):
                for md in (False, True):
                    env = {'process_request': rq, 'process_resource': rs, 'process_response': rp, 'mode': md}
                    events = []
                    run_block(body, env, events)
                    flip = {'head': 'tail', 'tail': 'head'}
                    events = [(role, flip[pos] if role in reversed_roles else pos, item) for (role, pos, item) in events]
                    table[(rq, rs, rp, md)] = sorted(events)
    return table, loops[0]


def _required_distribution(rq, rs, rp, md):
    ev = []
    if md:
        if rq:
            ev.append(('request', 'tail', 'request'))
        if rp:
            ev.append(('response', 'head', 'response'))
    elif rq or rp:
        ev.append(('request', 'tail', 'pair(request,response)'))
    if rs:
        ev.append(('resource', 'tail', 'resource'))
    return sorted(ev)


_ROLES3 = ('process_request', 'process_resource', 'process_response')


def _role_binding_table(run, f, comp_loop, asgi_param):
    """Abstract evaluation of how prepare_middleware binds the three method
    locals of a component, on all 64 presence patterns of the six attribute
    names (<role>, <role>_async) x asgi in {True, False}.  A value is None or
    the NAME of the attribute the bound method comes from.  Returns
    {(asgi, frozenset(present names)): {local: value}}; raises _Unevaluable."""
    p = run.project
    comp = comp_loop.target.id if isinstance(comp_loop.target, ast.Name) else None
    if comp is None:
        raise _Unevaluable('component loop variable')
    names6 = [r + sfx for r in _ROLES3 for sfx in ('', '_async')]

    class _Gen:
        def __init__(self, items):
            self.items = items

    def ev(e, env):
        if isinstance(e, ast.Constant):
            return e.value
        if isinstance(e, ast.Name):
            if e.id in env:
                return env[e.id]
            v = p.fold(f.module, e, None, None)
            if isinstance(v, (tuple, list, str)):
                return tuple(v) if isinstance(v, list) else v
            raise _Unevaluable('name %s' % e.id)
        if isinstance(e, ast.BinOp) and isinstance(e.op, ast.Add):
            l, r = ev(e.left, env), ev(e.right, env)
            if isinstance(l, str) and isinstance(r, str):
                return l + r
            raise _Unevaluable('concatenation %s' % short(e))
        if isinstance(e, ast.JoinedStr):
            out = ''
            for v in e.values:
                x = ev(v.value, env) if isinstance(v, ast.FormattedValue) else v.value
                if not isinstance(x, str):
                    raise _Unevaluable('f-string %s' % short(e))
                out += x
            return out
        if isinstance(e, ast.BoolOp):
            val = None
            for v in e.values:
                val = ev(v, env)
                if isinstance(e.op, ast.Or) and val:
                    return val
                if isinstance(e.op, ast.And) and not val:
                    return val
            return val
        if isinstance(e, ast.UnaryOp) and isinstance(e.op, ast.Not):
            return not ev(e.operand, env)
        if isinstance(e, ast.IfExp):
            return ev(e.body if ev(e.test, env) else e.orelse, env)
        if isinstance(e, ast.Compare) and len(e.ops) == 1 and isinstance(e.ops[0], (ast.Is, ast.IsNot)) \
                and isinstance(e.comparators[0], ast.Constant) and e.comparators[0].value is None:
            v = ev(e.left, env)
            return (v is None) if isinstance(e.ops[0], ast.Is) else (v is not None)
        if isinstance(e, (ast.Tuple, ast.List)):
            return tuple(ev(x, env) for x in e.elts)
        if isinstance(e, (ast.GeneratorExp, ast.ListComp)) and len(e.generators) == 1 and isinstance(e.generators[0].target, ast.Name):
            g = e.generators[0]
            seq = ev(g.iter, env)
            if not isinstance(seq, tuple):
                raise _Unevaluable('comprehension source %s' % short(g.iter))
            out = []
            for item in seq:
                env2 = dict(env)
                env2[g.target.id] = item
                if all(ev(c, env2) for c in g.ifs):
                    out.append(ev(e.elt, env2))
            return tuple(out)
        if isinstance(e, ast.Call):
            fn = e.func
            fname = fn.attr if isinstance(fn, ast.Attribute) else fn.id if isinstance(fn, ast.Name) else None
            if fname in ('any', 'all') and len(e.args) == 1:
                seq = ev(e.args[0], env)
                return (any if fname == 'any' else all)(bool(x) for x in seq)
            if fname in ('get_bound_method', 'getattr') and len(e.args) >= 2 and isinstance(e.args[0], ast.Name) and e.args[0].id == comp:
                nm = ev(e.args[1], env)
                if not isinstance(nm, str):
                    raise _Unevaluable('attribute name %s' % short(e.args[1]))
                return nm if nm in env['__present__'] else None
            if fname == 'hasattr' and len(e.args) == 2 and isinstance(e.args[0], ast.Name) and e.args[0].id == comp:
                nm = ev(e.args[1], env)
                if not isinstance(nm, str):
                    raise _Unevaluable('attribute name %s' % short(e.args[1]))
                return nm in env['__present__']
            if fname in ('tuple', 'list') and len(e.args) == 1:
                return tuple(ev(e.args[0], env))
            if len(e.args) == 1 and not e.keywords:
                # a wrapper around one method value (adapter to a coroutine, cast, ...): passes None through
                v = ev(e.args[0], env)
                if v is None or isinstance(v, str):
                    return v
            raise _Unevaluable('call %s' % short(e))
        raise _Unevaluable('expression %s' % short(e))

    def assign(t, v, env):
        if isinstance(t, ast.Name):
            env[t.id] = v
        elif isinstance(t, (ast.Tuple, ast.List)):
            if not isinstance(v, tuple) or len(v) != len(t.elts):
                raise _Unevaluable('unpacking %s' % short(t))
            for tt, vv in zip(t.elts, v):
                assign(tt, vv, env)
        else:
            raise _Unevaluable('target %s' % short(t))

    def run_stmts(stmts, env):
        for st in stmts:
            if isinstance(st, ast.Assign):
                v = ev(st.value, env)
                for t in st.targets:
                    assign(t, v, env)
            elif isinstance(st, ast.AnnAssign):
                if st.value is not None:
                    assign(st.target, ev(st.value, env), env)
            elif isinstance(st, ast.If):
                try:
                    t = ev(st.test, env)
                except _Unevaluable:
                    # validation blocks (coroutine-ness ...) that bind none of the locals are skipped
                    if any(isinstance(x, ast.Name) and isinstance(x.ctx, ast.Store) for x in walk_self(st)):
                        raise
                    continue
                run_stmts(st.body if t else st.orelse, env)
            elif isinstance(st, (ast.For, ast.AsyncFor, ast.While)):
                # validation loops (coroutine-ness of the bound methods); a method local bound in a loop
                # would not be identified below and ends as an unknown idiom
                continue
            elif isinstance(st, (ast.Expr, ast.Pass, ast.Raise, ast.Continue)):
                continue
            else:
                raise _Unevaluable('statement %s' % type(st).__name__)

    # the binding statements: the leading statements of the loop body up to the first one that mentions a stack insertion
    head = []
    for st in comp_loop.body:
        if any(isinstance(c, ast.Call) and isinstance(c.func, ast.Attribute) and c.func.attr in ('append', 'insert', 'appendleft') for c in walk_self(st)):
            break
        head.append(st)
    import itertools
    table = {}
    for asgi in (True, False):
        for k in range(len(names6) + 1):
            for present in itertools.combinations(names6, k):
                env = {'__present__': frozenset(present), asgi_param: asgi}
                # the "no method at all" early exit is not a binding: evaluate bindings only
                run_stmts([st for st in head if not (isinstance(st, ast.If) and not any(
                    isinstance(x, ast.Name) and isinstance(x.ctx, ast.Store) for x in walk_self(st)))], env)
                table[(asgi, frozenset(present))] = {k_: v for k_, v in env.items() if not k_.startswith('__') and k_ != asgi_param}
    return table


def r3_stacks(run):
    p = run.project
    f = p.func('falcon.app_helpers.prepare_middleware')
    run.use(f)
    roles = _returned_roles(f)
    if len(roles) != 3:
        raise UnknownIdiom('prepare_middleware returns %d stacks' % len(roles))
    want = [('request', 'tail'), ('resource', 'tail'), ('response', 'head')]
    post_rev, rev_handled = _post_reversals(f, [n for n, _ in roles])
    for (name, rev), (role, pol) in zip(roles, want):
        ins = _insertions(f, name, rev_handled)
        if not ins:
            raise AnchorError('prepare_middleware: no insertion into %s' % name)
        for kind, c in ins:
            # dependent mode appends (req, resp) pairs to the request stack: tail
            eff = {'tail': 'head', 'head': 'tail'}.get(kind, kind) if (bool(rev) != bool(post_rev[name])) else kind
            run.check(eff == pol, 'prepare_middleware: %s stack is %s-inserted (%s methods run %s)' % (
                role, pol, role, 'bottom-up' if pol == 'head' else 'top-down'), f, c)
    # mode separation: the static response stack is filled only in independent
    # mode, the (request, response) pairs only in dependent mode -- both
    # __call__s run `static_stack or per_request_stack`, so a non-empty static
    # stack in dependent mode would disable the per-request (dependent) one
    cfg = cfg_of(f, p)
    run.use_cfg(cfg)
    params = f.params()
    if len(params) < 2:
        raise AnchorError('prepare_middleware: independent_middleware parameter not found')
    mode = params[1]

    def is_mode(e):
        return isinstance(e, ast.Name) and e.id == mode

    mode_edges = {True: [], False: []}
    for n in cfg.live_nodes():
        if n.kind == 'test':
            for (y, l) in cfg.succ[n.id]:
                if l in ('T', 'F'):
                    r = implied(n.ast, l == 'T', is_mode)
                    if r is not None:
                        mode_edges[r].append((n.id, y, l))
    # which component shape puts what on which stack: decided by evaluating the
    # per-component statements on all 8 shapes x 2 modes (robust to restructuring)
    def role_of0(name):
        roles_ = set()
        for a in walk_self(f.node):
            if isinstance(a, (ast.Assign, ast.AnnAssign)) and a.value is not None:
                tg = a.targets if isinstance(a, ast.Assign) else [a.target]
                if not any(isinstance(t, ast.Name) and t.id == name for t in tg):
                    continue
                lits = {x.value for x in ast.walk(a.value) if isinstance(x, ast.Constant) and isinstance(x.value, str) and x.value.startswith('process_')}
                roles_.update(l[:-len('_async')] if l.endswith('_async') else l for l in lits)
        return roles_

    # how the three method locals of a component are bound: evaluated on all presence patterns of
    # <role> / <role>_async (each role falls back from the *_async spelling to the plain one on its own)
    comp_loops = [n for n in walk_self(f.node) if isinstance(n, ast.For) and isinstance(n.target, ast.Name)
                  and any(isinstance(c, ast.Call) and isinstance(c.func, ast.Attribute) and c.func.attr in ('append', 'insert', 'appendleft') for c in walk_self(n))]
    comp_loops = [lp for lp in comp_loops if not any(lp is not o and any(x is lp for x in walk_self(o)) for o in comp_loops)]
    local_role = {}
    asgi_param = params[2] if len(params) > 2 else None
    if len(comp_loops) == 1 and asgi_param:
        try:
            btable = _role_binding_table(run, f, comp_loops[0], asgi_param)
        except _Unevaluable as ex:
            btable = None
            run.extra['c03_r3_binding_table'] = 'not evaluable: %s' % ex
        if btable is not None:
            # identify the local of each role: the one that resolves to <role> when only <role> is present (WSGI)
            for r in _ROLES3:
                env = btable[(False, frozenset([r]))]
                hits = [k for k, v in env.items() if v == r]
                if len(hits) == 1:
                    local_role[hits[0]] = r
            if len(local_role) != 3:
                raise UnknownIdiom('prepare_middleware: the three method locals were not identified (%s)' % sorted(local_role))
            bad = []
            for (asgi, present), env in sorted(btable.items(), key=lambda kv: (kv[0][0], sorted(kv[0][1]))):
                for loc, r in local_role.items():
                    if asgi:
                        want_ = r + '_async' if r + '_async' in present else (r if r in present else None)
                    else:
                        want_ = r if r in present else None
                    if env.get(loc) != want_:
                        bad.append((asgi, sorted(present), loc, env.get(loc), want_))
            if bad:
                asgi, present, loc, got, want_ = bad[0]
                run.fail('prepare_middleware (%s): each middleware method is looked up on its own -- %s, falling back per method' % (
                    'ASGI' if asgi else 'WSGI', '<role>_async first, then <role>' if asgi else 'the plain <role> name'), f,
                    'binding[%s; asgi=%d; component has %s]' % (loc, int(asgi), ','.join(present) or 'nothing'), where=f.loc(comp_loops[0]),
                    witness=['%s is bound to %s, expected %s' % (loc, got, want_), '%d of 384 cells differ' % len(bad)],
                    runtime_witness='an ASGI component with process_request_async and a plain coroutine process_response: the response method is never called')
            else:
                run.ok('prepare_middleware: 128 presence patterns x 3 roles bind each method local by per-role fallback', f.loc(comp_loops[0]), 'binding table')

    def role_of1(name):
        if name in local_role:
            return {local_role[name]}
        return role_of0(name)

    table = None
    try:
        table, comp_loop = _distribution_table(run, f, roles, role_of1, mode)
    except _Unevaluable as ex:
        if not mode_edges[True] or not mode_edges[False]:
            raise UnknownIdiom('prepare_middleware: distribution of component methods cannot be evaluated (%s) and there is no branch on the mode parameter' % ex)
    if table is not None:
        bad = [(k, got, _required_distribution(*k)) for k, got in sorted(table.items()) if got != _required_distribution(*k)]
        if bad:
            k, got, want_ = bad[0]
            run.fail('prepare_middleware: a component with (request, resource, response) methods = %s in %s mode must contribute %s'
                     % (tuple(int(x) for x in k[:3]), 'independent' if k[3] else 'dependent', want_ or 'nothing'), f,
                     'distribution[req=%d,res=%d,resp=%d,independent=%d]' % tuple(int(x) for x in k), where=f.loc(comp_loop),
                     witness=['contributes %s' % (got or 'nothing')] + ['%d of 16 shape/mode cells differ' % len(bad)],
                     runtime_witness='a middleware component of that shape: its process_response (or process_request) is never called / called in the wrong mode')
        else:
            run.ok('prepare_middleware: 16 component-shape x mode cells distribute the methods as documented', f.loc(comp_loop), 'distribution table')
    if not mode_edges[True] or not mode_edges[False]:
        if table is None:
            raise AnchorError('prepare_middleware: no branch on the independent_middleware parameter')
        mode_edges = None
    resp_name = roles[2][0]
    req_name = roles[0][0]
    for kind, c in (_insertions(f, resp_name, rev_handled) if mode_edges else []):
        nids = [n.id for n in cfg.live_nodes() if any(x is c for x in n.calls())]
        ok = bool(nids) and all(any(flow.dominated_by_edge(cfg, nid, e) for e in mode_edges[True]) for nid in nids)
        run.check(ok, 'prepare_middleware: the static response stack is filled only in independent mode '
                      '(in dependent mode the per-request stack must be the one that runs)', f, c,
                  runtime_witness='independent_middleware=False and a process_request that raises: later components\' process_response still run')
    for kind, c in (_insertions(f, req_name, rev_handled) if mode_edges else []):
        is_pair = bool(c.args) and isinstance(c.args[-1], ast.Tuple)
        nids = [n.id for n in cfg.live_nodes() if any(x is c for x in n.calls())]
        want = not is_pair
        ok = bool(nids) and all(any(flow.dominated_by_edge(cfg, nid, e) for e in mode_edges[want]) for nid in nids)
        run.check(ok, 'prepare_middleware: request stack holds %s only in %s mode' % (
            '(request, response) pairs' if is_pair else 'bare request methods', 'dependent' if is_pair else 'independent'), f, c)
    # ws variant: request/resource stacks tail
    if p.has_func('falcon.app_helpers.prepare_middleware_ws'):
        g = p.func('falcon.app_helpers.prepare_middleware_ws')
        run.use(g)
        for (name, rev) in _returned_roles(g):
            for kind, c in _insertions(g, name):
                eff = {'tail': 'head', 'head': 'tail'}.get(kind, kind) if rev else kind
                run.check(eff == 'tail', 'prepare_middleware_ws: %s is tail-inserted (top-down order)' % name, g, c)
    # the request pair carries (process_request, process_response) in that order
    # roles by def-use: a local is the request / response method of the component
    # iff every binding of it comes from get_bound_method(component, '<role>[_async]')
    def role_of(name):
        roles_ = set()
        for a in walk_self(f.node):
            if isinstance(a, (ast.Assign, ast.AnnAssign)) and a.value is not None:
                tg = a.targets if isinstance(a, ast.Assign) else [a.target]
                if not any(isinstance(t, ast.Name) and t.id == name for t in tg):
                    continue
                lits = {x.value for x in ast.walk(a.value) if isinstance(x, ast.Constant) and isinstance(x.value, str) and x.value.startswith('process_')}
                roles_.update(l[:-len('_async')] if l.endswith('_async') else l for l in lits)
        return roles_

    for c in walk_self(f.node):
        if isinstance(c, ast.Call) and method_call(c, 'append') and c.args and isinstance(c.args[0], ast.Tuple):
            elts = c.args[0].elts
            got = [role_of(e.id) if isinstance(e, ast.Name) else set() for e in elts]
            run.check(got == [{'process_request'}, {'process_response'}],
                      'dependent-mode pair is (request method, response method) of the same component', f, c,
                      witness=['roles: %s' % got])


# ---------------------------------------------------------------------------
# R4 hooks
# ---------------------------------------------------------------------------

def _hook_order(run, wrapper_qual, want_first):
    p = run.project
    outer = p.func(wrapper_qual)
    nested = [g for k, g in outer.nested.items()]
    if len(nested) != 2:
        raise AnchorError('%s: expected a sync and an async wrapper, found %d' % (wrapper_qual, len(nested)))
    langs = []
    for g in nested:
        cfg = cfg_of(g, p)
        run.use_cfg(cfg)
        # roles: the callee that receives **kwargs only (responder) vs the one receiving *action_args
        def lab(n, g=g):
            out = []
            for c in n.calls():
                if not isinstance(c.func, ast.Name):
                    continue
                star = [a for a in c.args if isinstance(a, ast.Starred)]
                if star:
                    out.append('^ACTION')
                elif any(k.arg is None for k in c.keywords) and len(c.args) >= 3:
                    out.append('^RESPONDER')
            return out

        def delta(st, l):
            if l == 'ACTION':
                if st[0] >= 1:
                    return ERROR
                if want_first == 'RESPONDER' and st[1] != 1:
                    return ERROR
                return (st[0] + 1, st[1])
            if l == 'RESPONDER':
                if st[1] >= 1:
                    return ERROR
                if want_first == 'ACTION' and st[0] != 1:
                    return ERROR
                return (st[0], st[1] + 1)
            return st

        cex, _, _ = flow.typestate(cfg, lab, delta, (0, 0), exit_ok=lambda st: st == (1, 1))
        if cex is None:
            run.ok('%s: %s runs first, each exactly once on every normal path' % (g.qual, want_first.lower()), g.loc())
        else:
            path, st, reason = cex
            bad = cfg.node(path[-1])
            run.fail('hook wrapper order/once violated: %s' % reason, g, bad.ast if bad.ast is not None else bad.text(),
                     witness=flow.describe_path(cfg, path))
        # a raise out of the action or the responder ends the wrapper: nothing
        # else of the stack is called afterwards and the exception is not
        # swallowed (the wrapper has no handler and no finally of its own)
        labelled = [n for n in cfg.live_nodes() if lab(n)]
        if not labelled:
            raise AnchorError('%s: no action/responder call found in the wrapper' % g.qual)
        for n in labelled:
            targets = [y for (y, l) in cfg.succ[n.id] if l == 'exc']
            after = flow.reachable(cfg, targets)
            late = [m for m in labelled if m.id in after]
            swallowed = cfg.exit in after
            run.check(not late and not swallowed,
                      'a raise out of %s leaves the hook wrapper at once: no further action/responder call, not swallowed'
                      % lab(n)[0].lstrip('^').lower(), g,
                      (late[0].ast if late and late[0].ast is not None else (n.ast if n.ast is not None else n.text())),
                      witness=['after the raise: %s' % (late[0].text() if late else 'normal exit reachable')])
        nfa = flow.project(cfg, lab, accept_exit=True, accept_xexit='!raise', edge_labeler=lambda a, b, l: 'X' if l == 'exc' else None)
        langs.append((g, flow.determinise(nfa)))
    d = flow.language_diff(langs[0][1], langs[1][1])
    run.check(d is None, 'sync and async variants of %s are language-equal' % wrapper_qual, langs[0][0],
              'sync-vs-async ' + wrapper_qual, where=outer.loc(), witness=[str(d)] if d else None)


def r4_hooks(run):
    _hook_order(run, 'falcon.hooks._wrap_with_before', 'ACTION')
    _hook_order(run, 'falcon.hooks._wrap_with_after', 'RESPONDER')


# ---------------------------------------------------------------------------
# R5 lifespan
# ---------------------------------------------------------------------------

_LIFESPAN_PHASES = ('process_startup', 'process_shutdown')
# builtins whose result is an ITERATOR: the first traversal consumes it, every later one sees it empty
_ONE_SHOT_BUILTINS = ('reversed', 'iter', 'map', 'filter', 'zip', 'enumerate')


class _Prepared:
    """Where the iterable of a lifespan handler loop comes from, when it is prepared ahead of time."""
    def __init__(self):
        self.rev = 0            # parity of order reversals between the registered list and the loop
        self.stored = None      # (writer Func, assignment) when the collection is kept on the app
        self.one_shot = None    # (Func, expr) first layer under the store that is an iterator object
        self.materialised = False
        self.base = None        # ('registered',) | ('built', Func, name)
        self.items = None       # 'component' | 'method'
        self.phase = None       # for method items: the attribute the methods come from
        self.helper = None
        self.notes = []


def _trace_lifespan_source(p, f, it):
    """Follow the iterable of a handler loop of `f` back to the registered
    middleware list: through locals bound once (also by tuple unpacking),
    order-preserving copies, reversals, an attribute of the app that one method
    stores, and a helper that builds the collection(s) from the list it is
    handed.  Returns a _Prepared, or None when the chain does not lead to an app
    attribute / helper at all (not a prepared collection)."""
    res = _Prepared()

    def bindings(fn, name):
        out = []
        for a in walk_self(fn.node):
            if isinstance(a, ast.Assign):
                for t in a.targets:
                    if isinstance(t, ast.Name) and t.id == name:
                        out.append((a, a.value, None))
                    elif isinstance(t, (ast.Tuple, ast.List)):
                        for i, e in enumerate(t.elts):
                            if isinstance(e, ast.Name) and e.id == name:
                                out.append((a, a.value, i))
            elif isinstance(a, ast.AnnAssign) and a.value is not None and isinstance(a.target, ast.Name) and a.target.id == name:
                out.append((a, a.value, None))
        stores = sum(1 for x in walk_self(fn.node) if isinstance(x, ast.Name) and x.id == name and isinstance(x.ctx, (ast.Store, ast.Del)))
        return out, stores

    def attr_writers(cq, attr):
        out = []
        for k in p.mro(cq):
            c = p.classes.get(k)
            if c is None:
                continue
            for m in c.methods.values():
                for a in walk_self(m.node):
                    if isinstance(a, ast.Assign):
                        for t in a.targets:
                            if is_self_attr(t, attr):
                                out.append((m, a, a.value, None))
                            elif isinstance(t, (ast.Tuple, ast.List)):
                                for i, e in enumerate(t.elts):
                                    if is_self_attr(e, attr):
                                        out.append((m, a, a.value, i))
                    elif isinstance(a, (ast.AnnAssign, ast.AugAssign)) and getattr(a, 'value', None) is not None and is_self_attr(a.target, attr):
                        out.append((m, a, a.value, None) if isinstance(a, ast.AnnAssign) else (m, a, None, None))
                    elif isinstance(a, ast.Call) and isinstance(a.func, ast.Attribute) and is_self_attr(a.func.value, attr) \
                            and a.func.attr in ('append', 'extend', 'insert', 'reverse', 'sort', 'pop', 'remove', 'clear'):
                        out.append((m, a, None, None))
        return out

    def layer(fn, e, kind):
        """account one wrapper: kind in 'mat' | 'shot'"""
        if res.stored is None or res.one_shot is not None or res.materialised:
            return
        if kind == 'mat':
            res.materialised = True
        else:
            res.one_shot = (fn, e)

    def go(fn, e, path, frames, depth=0):
        if depth > 24:
            raise UnknownIdiom('%s: lifespan handler collection: definition too deep' % f.qual)
        nxt = depth + 1
        if isinstance(e, ast.Await):
            return go(fn, e.value, path, frames, nxt)
        if isinstance(e, ast.Name):
            params = fn.params()
            binds, stores = bindings(fn, e.id)
            if e.id in params and not stores:
                if frames:
                    (cfn, call, callee) = frames[-1]
                    idx = params.index(e.id) - (1 if callee.cls is not None and params and params[0] in ('self', 'cls') else 0)
                    arg = None
                    for k in call.keywords:
                        if k.arg == e.id:
                            arg = k.value
                    if arg is None and 0 <= idx < len(call.args) and not any(isinstance(a, ast.Starred) for a in call.args):
                        arg = call.args[idx]
                    if arg is None:
                        raise UnknownIdiom('%s: argument for %s not found in %s' % (cfn.qual, e.id, short(call)))
                    return go(cfn, arg, path, frames[:-1], nxt)
                # R6 (b): _prepare_middleware is handed the complete registered list by every add_middleware
                if fn.name == '_prepare_middleware' and len(params) > 1 and e.id == params[1] and not path:
                    res.base = ('registered',)
                    return res
                return None
            if len(binds) == 1 and stores == 1:
                a, v, i = binds[0]
                if i is None and not path and ((isinstance(v, ast.List) and not v.elts) or (
                        isinstance(v, ast.Call) and isinstance(v.func, ast.Name) and v.func.id in ('list', 'deque') and not v.args)):
                    res.base = ('built', fn, e.id)
                    res.frames = frames
                    return res
                return go(fn, v, ([i] if i is not None else []) + path, frames, nxt)
            if not binds and not stores:
                return None
            raise UnknownIdiom('%s: %s is bound more than once' % (fn.qual, e.id))
        if isinstance(e, ast.Attribute) and isinstance(e.value, ast.Name) and e.value.id == 'self':
            if e.attr == '_unprepared_middleware':
                if path:
                    raise UnknownIdiom('%s: element of the registered middleware list' % fn.qual)
                res.base = ('registered',)
                return res
            if fn.cls is None:
                return None
            cq = fn.cls if isinstance(fn.cls, str) else fn.cls.qual
            ws = attr_writers(cq, e.attr)
            if not ws:
                return None
            if res.stored is not None:
                raise UnknownIdiom('%s: lifespan handler collection passes through two app attributes' % fn.qual)
            if len(ws) != 1 or ws[0][2] is None:
                raise UnknownIdiom('%s: self.%s is written in %d places' % (fn.qual, e.attr, len(ws)))
            m, a, v, i = ws[0]
            res.stored = (m, a, e.attr)
            return go(m, v, ([i] if i is not None else []) + path, [], nxt)
        if isinstance(e, (ast.Tuple, ast.List)) and path:
            if path[0] >= len(e.elts) or any(isinstance(x, ast.Starred) for x in e.elts):
                raise UnknownIdiom('%s: element %d of %s' % (fn.qual, path[0], short(e)))
            return go(fn, e.elts[path[0]], path[1:], frames, nxt)
        if isinstance(e, ast.Subscript):
            if short(e.slice) == '::-1' and not path:
                res.rev ^= 1
                layer(fn, e, 'mat')
                return go(fn, e.value, path, frames, nxt)
            if isinstance(e.slice, ast.Constant) and isinstance(e.slice.value, int) and e.slice.value >= 0:
                return go(fn, e.value, [e.slice.value] + path, frames, nxt)
            raise UnknownIdiom('%s: lifespan handler collection %s' % (fn.qual, short(e)))
        if isinstance(e, ast.GeneratorExp) and not path and len(e.generators) == 1 and not e.generators[0].ifs and not e.generators[0].is_async \
                and isinstance(e.elt, ast.Name) and isinstance(e.generators[0].target, ast.Name) and e.elt.id == e.generators[0].target.id:
            # (x for x in X): the items of X in X's order, as a one-shot iterator
            layer(fn, e, 'shot')
            return go(fn, e.generators[0].iter, path, frames, nxt)
        if isinstance(e, (ast.GeneratorExp,)) and not path:
            if res.stored is not None and res.one_shot is None and not res.materialised:
                res.one_shot = (fn, e)
                return res
            raise UnknownIdiom('%s: lifespan handler collection %s' % (fn.qual, short(e)))
        if isinstance(e, ast.Call) and not e.keywords and isinstance(e.func, ast.Name) and len(e.args) >= 1 \
                and e.func.id in ('tuple', 'list') + _ONE_SHOT_BUILTINS and p.resolve_expr(fn.module, e.func, fn) in (None, 'builtins.' + e.func.id):
            nm = e.func.id
            if nm in ('tuple', 'list') and len(e.args) == 1:
                if not path:
                    layer(fn, e, 'mat')
                return go(fn, e.args[0], path, frames, nxt)
            if path:
                raise UnknownIdiom('%s: element of %s' % (fn.qual, short(e)))
            if nm == 'reversed' and len(e.args) == 1:
                res.rev ^= 1
                layer(fn, e, 'shot')
                return go(fn, e.args[0], path, frames, nxt)
            if nm == 'iter' and len(e.args) == 1:
                layer(fn, e, 'shot')
                return go(fn, e.args[0], path, frames, nxt)
            if nm == 'enumerate' and fn is f and len(e.args) == 1:
                return go(fn, e.args[0], path, frames, nxt)
            # map / filter / zip / a stored enumerate: an iterator whose content this rule does not read
            if res.stored is not None and res.one_shot is None and not res.materialised:
                res.one_shot = (fn, e)
                return res
            raise UnknownIdiom('%s: lifespan handler collection %s' % (fn.qual, short(e)))
        if isinstance(e, ast.Call):
            h = p.resolve_callable(fn, e.func)
            if h is None or isinstance(h, str) or not hasattr(h, 'params'):
                if res.stored is not None:
                    raise UnknownIdiom('%s: lifespan handler collection %s' % (fn.qual, short(e)))
                return None
            rets = [r for r in walk_self(h.node) if isinstance(r, ast.Return) and r.value is not None]
            if len(rets) != 1:
                raise UnknownIdiom('%s: %d return statements' % (h.qual, len(rets)))
            res.helper = h
            return go(h, rets[0].value, path, frames + [(fn, e, h)], nxt)
        if res.stored is not None or res.helper is not None:
            raise UnknownIdiom('%s: lifespan handler collection %s' % (fn.qual, short(e)))
        return None

    r = go(f, it, [], [])
    if r is None or (res.stored is None and res.helper is None):
        return None
    return res


def _built_handler_list(p, res):
    """Read how the helper fills the list local `res.base` = ('built', h, name):
    polarity of the insertions, the loop over the components, and - by abstract
    evaluation of the loop body on the 4 presence cells of (process_startup,
    process_shutdown) - what is inserted for which component.  Fills res.rev /
    res.items / res.phase; returns {cell: [item, ...]} for the list."""
    _k, h, name = res.base
    post, handled = _post_reversals(h, [name])
    ins = _insertions(h, name, handled)
    if not ins:
        raise UnknownIdiom('%s: nothing is inserted into %s' % (h.qual, name))
    kinds = {k for k, _c in ins}
    if kinds - {'head', 'tail'} or len(kinds) != 1:
        raise UnknownIdiom('%s: %s is filled by %s' % (h.qual, name, ', '.join(short(c) for _k2, c in ins)))
    if 'head' in kinds:
        res.rev ^= 1
    res.rev ^= post[name]
    loops = [n for n in walk_self(h.node) if isinstance(n, ast.For) and any(c is x for _k2, c in ins for x in walk_self(n))]
    loops = [lp for lp in loops if not any(lp is not o and any(x is lp for x in walk_self(o)) for o in loops)]
    if len(loops) != 1 or not isinstance(loops[0].target, ast.Name) or loops[0].orelse:
        raise UnknownIdiom('%s: the loop over the components that fills %s was not identified' % (h.qual, name))
    lp = loops[0]
    if not all(any(c is x for x in walk_self(lp)) for _k2, c in ins):
        raise UnknownIdiom('%s: %s is also filled outside the component loop' % (h.qual, name))
    comp = lp.target.id

    def ev(e, env):
        if isinstance(e, ast.Constant):
            return e.value
        if isinstance(e, ast.Name):
            if e.id == comp:
                return ('c',)
            if e.id in env:
                return env[e.id]
            raise _Unevaluable('name %s' % e.id)
        if isinstance(e, ast.Attribute) and isinstance(e.value, ast.Name) and e.value.id == comp:
            if e.attr in env['__present__']:
                return ('m', e.attr)
            raise _Unevaluable('%s read on a component that does not have it' % short(e))
        if isinstance(e, ast.UnaryOp) and isinstance(e.op, ast.Not):
            return not ev(e.operand, env)
        if isinstance(e, ast.BoolOp):
            val = None
            for v in e.values:
                val = ev(v, env)
                if isinstance(e.op, ast.Or) and val:
                    return val
                if isinstance(e.op, ast.And) and not val:
                    return val
            return val
        if isinstance(e, ast.IfExp):
            return ev(e.body if ev(e.test, env) else e.orelse, env)
        if isinstance(e, ast.Compare) and len(e.ops) == 1 and isinstance(e.ops[0], (ast.Is, ast.IsNot)) \
                and isinstance(e.comparators[0], ast.Constant) and e.comparators[0].value is None:
            v = ev(e.left, env)
            return (v is None) if isinstance(e.ops[0], ast.Is) else (v is not None)
        if isinstance(e, ast.Call) and not e.keywords:
            fn = e.func.attr if isinstance(e.func, ast.Attribute) else e.func.id if isinstance(e.func, ast.Name) else None
            is_comp0 = bool(e.args) and isinstance(e.args[0], ast.Name) and e.args[0].id == comp
            if fn in ('getattr', 'get_bound_method') and is_comp0 and len(e.args) in (2, 3):
                nm = ev(e.args[1], env)
                if not isinstance(nm, str):
                    raise _Unevaluable('attribute name %s' % short(e.args[1]))
                if nm in env['__present__']:
                    return ('m', nm)
                if len(e.args) == 3:
                    return ev(e.args[2], env)
                if fn == 'get_bound_method':
                    return None
                raise _Unevaluable('%s on a component without the attribute' % short(e))
            if fn == 'hasattr' and is_comp0 and len(e.args) == 2:
                nm = ev(e.args[1], env)
                if not isinstance(nm, str):
                    raise _Unevaluable('attribute name %s' % short(e.args[1]))
                return nm in env['__present__']
            if fn == 'callable' and len(e.args) == 1:
                v = ev(e.args[0], env)
                return isinstance(v, tuple) and v[0] == 'm'
            if len(e.args) == 1 and fn not in ('len', 'bool', 'id', 'type', 'str', 'repr'):
                # a wrapper around one method value (cast, adapter to a coroutine function): None passes through
                v = ev(e.args[0], env)
                if v is None or (isinstance(v, tuple) and v[0] == 'm'):
                    return v
        raise _Unevaluable('expression %s' % short(e))

    def touches(st):
        return any(isinstance(c, ast.Call) and isinstance(c.func, ast.Attribute) and isinstance(c.func.value, ast.Name)
                   and c.func.attr in ('append', 'insert', 'appendleft', 'extend') for c in walk_self(st)) \
            or any(isinstance(x, ast.Name) and isinstance(x.ctx, ast.Store) for x in walk_self(st)) \
            or any(isinstance(x, (ast.Continue, ast.Break, ast.Return)) for x in walk_self(st))

    def run_block(stmts, env, events):
        for st in stmts:
            if isinstance(st, ast.Continue):
                return True
            if isinstance(st, (ast.Break, ast.Return)):
                raise _Unevaluable('the component loop is left early (%s)' % short(st))
            if isinstance(st, (ast.Assign, ast.AnnAssign)):
                if getattr(st, 'value', None) is None:
                    continue
                tg = st.targets if isinstance(st, ast.Assign) else [st.target]
                v = ev(st.value, env)
                for t in tg:
                    if not isinstance(t, ast.Name):
                        raise _Unevaluable('target %s' % short(t))
                    env[t.id] = v
            elif isinstance(st, ast.If):
                try:
                    t = ev(st.test, env)
                except _Unevaluable:
                    if touches(st):
                        raise
                    continue  # validation of a component (coroutine-ness ...): binds nothing, inserts nothing
                if run_block(st.body if t else st.orelse, env, events):
                    return True
            elif isinstance(st, ast.Expr) and isinstance(st.value, ast.Call) and isinstance(st.value.func, ast.Attribute) \
                    and isinstance(st.value.func.value, ast.Name) and st.value.func.attr in ('append', 'insert', 'appendleft', 'extend'):
                c = st.value
                if c.func.attr == 'insert' and len(c.args) == 2:
                    item = c.args[1]
                elif c.func.attr in ('append', 'appendleft') and len(c.args) == 1:
                    item = c.args[0]
                else:
                    raise _Unevaluable('insertion %s' % short(c))
                events.append((c.func.value.id, ev(item, env)))
            elif isinstance(st, (ast.Expr, ast.Pass, ast.Raise)):
                if isinstance(st, ast.Raise):
                    return True
                continue
            else:
                raise _Unevaluable('statement %s' % type(st).__name__)
        return False

    table = {}
    for su in (False, True):
        for sd in (False, True):
            env = {'__present__': frozenset(n for n, on in zip(_LIFESPAN_PHASES, (su, sd)) if on)}
            events = []
            try:
                run_block(lp.body, env, events)
            except _Unevaluable as ex:
                raise UnknownIdiom('%s: the component loop cannot be evaluated (%s)' % (h.qual, ex))
            table[(su, sd)] = [v for (nm, v) in events if nm == name]
    res.loop = lp
    return table


def _judge_prepared(run, f, lp, call, kind, phase, pr, table):
    """The handler loop of a lifespan phase runs over a collection PREPARED
    from the registered middleware (a helper looks the methods up once, the app
    keeps the result).  Clauses, each necessary for "startup handlers in
    registration order, shutdown handlers in reverse, on every lifespan cycle":
      * what the app keeps is re-iterable: a materialised list/tuple, not the
        iterator object returned by reversed()/iter()/map()/filter()/zip() or a
        generator -- those are consumed by the first cycle;
        W: two lifespan cycles on one App: the second shutdown calls no process_shutdown at all.
      * the collection is built from the complete registered list: every
        component that has the phase's method contributes it (4 presence cells);
      * the net order (insertion polarity x reversals at preparation and at use)
        is registration order for startup, its reverse for shutdown."""
    p = run.project
    p_ = 'lifespan %s (prepared handlers)' % phase
    if pr.helper is not None:
        run.use(pr.helper)
    if pr.stored is not None:
        run.use(pr.stored[0])
        if pr.stored[0].name not in ('_prepare_middleware', 'add_middleware'):
            # R6 (b) shows these run again on every registration; a collection stored elsewhere may be stale
            raise UnknownIdiom('%s: self.%s is stored by %s, which is not known to run again when middleware is added' % (
                f.qual, pr.stored[2], pr.stored[0].qual))
        if pr.one_shot is not None:
            fn, e = pr.one_shot
            run.fail('%s: the handler collection the app keeps in self.%s must be re-iterable (a list/tuple); %s is a one-shot iterator, '
                     'consumed by the first lifespan cycle' % (p_, pr.stored[2], short(e)), fn, e,
                     runtime_witness='one App with a process_shutdown component driven through startup/shutdown twice: the second '
                                     'shutdown calls no handler (lifespan.shutdown.complete is still sent)')
        else:
            run.ok('%s: self.%s holds a materialised, re-iterable collection' % (p_, pr.stored[2]), pr.stored[0].loc(pr.stored[1]), pr.stored[1])
    elif pr.one_shot is not None:
        raise UnknownIdiom('%s: %s is a one-shot iterator local to the call; whether it is traversed once cannot be read' % (f.qual, short(pr.one_shot[1])))
    if pr.base is None:
        return  # an iterator whose content is not read (reported above)
    rev = pr.rev
    src = None
    if pr.base[0] == 'built':
        h = pr.base[1]
        # the loop over the components runs over the helper's argument = the complete registered list
        sub = _trace_component_loop(p, f, pr)
        rev ^= sub
        want_attr = kind
        cells_bad = []
        for (su, sd), items in sorted(table.items()):
            present = {'process_startup': su, 'process_shutdown': sd}[want_attr]
            if pr.items == 'method':
                want = [('m', want_attr)] if present else []
                if items != want:
                    cells_bad.append(((su, sd), items, want))
            else:
                if present and items != [('c',)] or len(items) > 1:
                    cells_bad.append(((su, sd), items, [('c',)]))
        if cells_bad:
            (su, sd), items, want = cells_bad[0]
            run.fail('%s: every registered component that has %s contributes it (once) to the prepared collection, and nothing else does'
                     % (p_, want_attr), h, 'prepared[%s; component has %s]' % (pr.base[2], ','.join(
                         n for n, on in zip(_LIFESPAN_PHASES, (su, sd)) if on) or 'nothing'), where=h.loc(pr.loop),
                     witness=['contributes %s, expected %s' % (items or 'nothing', want or 'nothing'), '%d of 4 presence cells differ' % len(cells_bad)],
                     runtime_witness='a middleware component of that shape: its %s is never called / a wrong method is called' % want_attr)
        else:
            run.ok('%s: 4 presence cells: each component with %s contributes it once' % (p_, want_attr), h.loc(pr.loop), 'presence table %s' % pr.base[2])
        src = h
    elif pr.base[0] != 'registered':
        raise UnknownIdiom('%s: source of the prepared collection' % f.qual)
    if pr.items != 'method' and isinstance(call.func, ast.Name):
        raise UnknownIdiom('%s: the loop calls its items, which are not the phase methods' % f.qual)
    if phase == 'startup':
        run.check(rev == 0, 'startup handlers run in registration order', src or f, lp.iter, where=f.loc(lp),
                  witness=['net reversals between the registered list and the loop: %d' % rev])
    else:
        run.check(rev == 1, 'shutdown handlers run in reverse registration order', src or f, lp.iter, where=f.loc(lp),
                  witness=['net reversals between the registered list and the loop: %d' % rev])


def _trace_component_loop(p, f, pr):
    """The iterable of the helper's component loop, followed back (through the
    helper's parameter and the call that stores the result) to the registered
    middleware list; returns the parity of reversals on the way."""
    _k, h, _name = pr.base
    lp = pr.loop
    sub = _Prepared()
    sub.stored = None
    it = lp.iter
    rev = 0
    frames = list(getattr(pr, 'frames', []))
    fn = h
    hops = 0
    while True:
        hops += 1
        if hops > 16:
            raise UnknownIdiom('%s: source of the component loop' % h.qual)
        if isinstance(it, ast.Call) and isinstance(it.func, ast.Name) and len(it.args) == 1 and not it.keywords:
            if it.func.id in ('list', 'tuple', 'iter'):
                it = it.args[0]
                continue
            if it.func.id == 'reversed':
                rev ^= 1
                it = it.args[0]
                continue
        if isinstance(it, ast.Subscript) and short(it.slice) == '::-1':
            rev ^= 1
            it = it.value
            continue
        if is_self_attr(it, '_unprepared_middleware'):
            return rev
        if isinstance(it, ast.Name):
            params = fn.params()
            stores = sum(1 for x in walk_self(fn.node) if isinstance(x, ast.Name) and x.id == it.id and isinstance(x.ctx, (ast.Store, ast.Del)))
            if it.id in params and not stores:
                if frames:
                    cfn, call, callee = frames.pop()
                    idx = params.index(it.id) - (1 if callee.cls is not None and params and params[0] in ('self', 'cls') else 0)
                    arg = None
                    for k in call.keywords:
                        if k.arg == it.id:
                            arg = k.value
                    if arg is None and 0 <= idx < len(call.args) and not any(isinstance(a, ast.Starred) for a in call.args):
                        arg = call.args[idx]
                    if arg is None:
                        raise UnknownIdiom('%s: argument for %s not found in %s' % (cfn.qual, it.id, short(call)))
                    fn, it = cfn, arg
                    continue
                # R6 (b): every add_middleware hands the complete registered list to _prepare_middleware
                if fn.name == '_prepare_middleware' and len(params) > 1 and it.id == params[1]:
                    return rev
            binds = [a for a in walk_self(fn.node) if isinstance(a, ast.Assign) and len(a.targets) == 1
                     and isinstance(a.targets[0], ast.Name) and a.targets[0].id == it.id]
            if len(binds) == 1 and stores == 1:
                it = binds[0].value
                continue
        raise UnknownIdiom('%s: the component loop runs over %s, which was not traced to the registered middleware list' % (fn.qual, short(it)))


def r5_lifespan(run):
    p = run.project
    f = p.func('falcon.asgi.app.App._call_lifespan_handlers')
    cfg = cfg_of(f, p)
    run.use_cfg(cfg)
    loops = [n for n in walk_self(f.node) if isinstance(n, (ast.For, ast.AsyncFor))]
    found = {}
    extra_calls = []

    # handler collections prepared ahead of time (a helper resolves the methods once, the app keeps the result):
    # the loop then calls its own target; which phase it serves is read from what the helper put into the collection
    prepared = {}

    def prepared_of(lp):
        if id(lp) not in prepared:
            pr = _trace_lifespan_source(p, f, lp.iter)
            table = None
            if pr is not None and pr.base is not None and pr.base[0] == 'built':
                table = _built_handler_list(p, pr)
                vals = {v for items in table.values() for v in items}
                if vals and all(isinstance(v, tuple) and v[0] == 'm' for v in vals):
                    pr.items = 'method'
                    if len({v[1] for v in vals}) == 1:
                        pr.phase = next(iter(vals))[1]
                elif vals == {('c',)}:
                    pr.items = 'component'
            prepared[id(lp)] = (pr, table)
        return prepared[id(lp)]

    def target_names(lp):
        t = lp.target
        return {x.id for x in (t.elts if isinstance(t, (ast.Tuple, ast.List)) else [t]) if isinstance(x, ast.Name)}

    def call_kind(lp, c):
        if isinstance(c.func, ast.Attribute):
            return c.func.attr
        pr, _t = prepared_of(lp)
        if pr is None:
            return None
        if pr.one_shot is not None and pr.base is None:
            return '?'  # a stored iterator whose content is not read: the phase is the one no other loop serves
        if pr.items != 'method' or pr.phase not in _LIFESPAN_PHASES:
            raise UnknownIdiom('%s: the loop calls the items of %s, which were not identified as the methods of one lifespan phase' % (f.qual, short(lp.iter)))
        return pr.phase

    def own_calls(lp):
        """process_* calls of this loop that are not inside a loop nested in it"""
        inner = {id(x) for sub in walk_self(lp) if sub is not lp and isinstance(sub, (ast.For, ast.AsyncFor)) for x in walk_self(sub)}
        tn = target_names(lp)
        out = [c for c in walk_self(lp) if id(c) not in inner and isinstance(c, ast.Call) and isinstance(c.func, ast.Attribute)
               and c.func.attr in _LIFESPAN_PHASES]
        direct = [c for c in walk_self(lp) if id(c) not in inner and isinstance(c, ast.Call) and isinstance(c.func, ast.Name) and c.func.id in tn]
        if direct and not out and all(call_kind(lp, c) in _LIFESPAN_PHASES + ('?',) for c in direct):
            out = direct
        return out

    pending = [lp for lp in loops if own_calls(lp) and call_kind(lp, own_calls(lp)[0]) == '?']
    served = {call_kind(lp, own_calls(lp)[0]) for lp in loops if own_calls(lp)} - {'?'}
    missing = [k for k in _LIFESPAN_PHASES if k not in served]
    if pending and not (len(pending) == 1 and len(missing) == 1):
        raise UnknownIdiom('%s: %d handler loops run over stored iterators whose content cannot be read' % (f.qual, len(pending)))

    for lp in loops:
        calls = own_calls(lp)
        if not calls:
            continue
        kind = call_kind(lp, calls[0])
        if kind == '?':
            kind = missing[0]
        nested_in_other = any(lp is not o and any(x is lp for x in walk_self(o)) for o in loops if own_calls(o))
        if kind in found or nested_in_other or len(calls) > 1:
            extra_calls += calls if (kind in found or nested_in_other) else calls[1:]
            if kind in found or nested_in_other:
                continue
        found[kind] = (lp, calls[0])
    if set(found) != {'process_startup', 'process_shutdown'}:
        raise AnchorError('lifespan handler loops not found: %s' % sorted(found))
    # each phase has exactly one handler loop: a second place that invokes a
    # lifespan handler (a "rollback" after a failed startup, a retry) runs
    # handlers outside the sequence the property fixes
    for c in extra_calls:
        run.fail('lifespan handlers are invoked only by the one loop of their phase (startup: each once in registration order, stopping at the '
                 'first failure; shutdown: only on the shutdown event)', f, c,
                 runtime_witness='two middleware with process_startup/process_shutdown, the second startup raises: a shutdown handler runs '
                                 'although no shutdown event was received / a handler runs twice')
    run.ok('lifespan: one handler loop per phase (%d loops examined)' % len(loops), f.loc())

    def send_type(c):
        """folded 'type' of a send({...}) call"""
        if not (isinstance(c, ast.Call) and isinstance(c.func, ast.Name) and c.func.id == 'send' and c.args):
            return None
        a = c.args[0]
        if isinstance(a, ast.Dict):
            for k, v in zip(a.keys, a.values):
                if isinstance(k, ast.Constant) and k.value == 'type':
                    val = p.fold(f.module, v, None, f)
                    return val if isinstance(val, str) else '?'
        return '?'

    for kind, (lp, call) in sorted(found.items()):
        phase = 'startup' if kind == 'process_startup' else 'shutdown'
        it = lp.iter
        # the iterable may be held in a local bound once (`handlers = list(reversed(self._unprepared_middleware))`);
        # list()/tuple() copies keep the order
        hops = 0
        while hops < 4:
            hops += 1
            if isinstance(it, ast.Name):
                binds = [a for a in walk_self(f.node) if isinstance(a, ast.Assign) and any(isinstance(t, ast.Name) and t.id == it.id for t in a.targets)]
                stores = sum(1 for x in walk_self(f.node) if isinstance(x, ast.Name) and x.id == it.id and isinstance(x.ctx, (ast.Store, ast.Del)))
                if len(binds) == 1 and stores == 1 and len(binds[0].targets) == 1:
                    it = binds[0].value
                    continue
            if isinstance(it, ast.Call) and isinstance(it.func, ast.Name) and it.func.id in ('list', 'tuple', 'enumerate') and len(it.args) == 1 and not it.keywords:
                it = it.args[0]  # order-preserving wrappers (enumerate only adds an index)
                continue
            break
        is_rev = isinstance(it, ast.Call) and isinstance(it.func, ast.Name) and it.func.id == 'reversed'
        base = it.args[0] if is_rev else it
        if isinstance(base, ast.Call) and isinstance(base.func, ast.Name) and base.func.id in ('list', 'tuple') and len(base.args) == 1:
            base = base.args[0]
        pr, table = (None, None) if is_self_attr(base, '_unprepared_middleware') else prepared_of(lp)
        if pr is not None:
            _judge_prepared(run, f, lp, call, kind, phase, pr, table)
        else:
            run.check(is_self_attr(base, '_unprepared_middleware'), 'lifespan %s iterates the registered middleware list' % phase, f, it)
            if phase == 'startup':
                run.check(not is_rev and not (isinstance(it, ast.Subscript)), 'startup handlers run in registration order', f, it)
            else:
                run.check(is_rev, 'shutdown handlers run in reverse registration order', f, it)
        iter_node = single([i for i in cfg.nodes_for(lp) if cfg.node(i).kind == 'iter'], 'loop header', f.qual)
        call_nodes = [n.id for n in cfg.live_nodes() if any(c is call for c in n.calls())]
        cn = single(call_nodes, '%s call node' % kind, f.qual)
        # failure: exc edge -> handler -> send(failed) -> return, never back to the loop or to complete
        hs = [y for (y, l) in cfg.succ[cn] if l == 'exc' and cfg.node(y).kind == 'handler']
        run.check(bool(hs) and all(_is_app_handler(cfg.node(h)) for h in hs) and cfg.xexit not in [y for (y, l) in cfg.succ[cn] if l == 'exc'],
                  'lifespan %s: handler call is wrapped by except Exception' % phase, f, call)
        failed_sends = [n.id for n in cfg.live_nodes() for c in n.calls() if send_type(c) == 'lifespan.%s.failed' % phase]
        complete_sends = [n.id for n in cfg.live_nodes() for c in n.calls() if send_type(c) == 'lifespan.%s.complete' % phase]
        if not complete_sends:
            raise AnchorError('lifespan.%s.complete send not found' % phase)
        for h in hs:
            # must send failed
            path = flow.find_path(cfg, [h], [cfg.exit, iter_node] + complete_sends, avoid_nodes=failed_sends, edge_filter=flow.no_exc)
            run.check(path is None, 'lifespan %s: a failing handler is reported with the %s.failed event' % (phase, phase), f,
                      cfg.node(h).ast.type or 'except', where='%s:%s' % (f.file, cfg.node(h).lineno),
                      witness=flow.describe_path(cfg, path) if path else None)
            # and stops: no further handler, no complete
            r = flow.reachable(cfg, [h], edge_filter=flow.no_exc)
            # allowed to go back to the outer `while True` only through exit (return)
            run.check(iter_node not in r and not (set(complete_sends) & r) and cn not in r,
                      'lifespan %s: the first failure stops the sequence (no further handler, no %s.complete)' % (phase, phase), f,
                      cfg.node(h).ast.type or 'except', where='%s:%s' % (f.file, cfg.node(h).lineno))
        # complete only when the loop ran to its end
        for cs in complete_sends:
            done_edges = flow.edges_out(cfg, iter_node, 'done')
            run.check(bool(done_edges) and all(flow.dominated_by_edge(cfg, cs, e) or len(done_edges) > 1 for e in done_edges)
                      and flow.dominated_by_nodes(cfg, cs, [iter_node]),
                      'lifespan %s.complete is sent only after the handler loop ran to its end' % phase, f, cfg.node(cs).ast,
                      where='%s:%s' % (f.file, cfg.node(cs).lineno))


# ---------------------------------------------------------------------------
# R6 wiring of the prepared stacks
# ---------------------------------------------------------------------------

def _kwarg(call, name, pos=None):
    for k in call.keywords:
        if k.arg == name:
            return k.value
    if pos is not None and len(call.args) > pos:
        return call.args[pos]
    return None


def r6_wiring(run):
    p = run.project
    f = p.func('falcon.app.App.add_middleware')
    cfg = cfg_of(f, p)
    run.use_cfg(cfg)
    # (a) registration order: the unprepared list only grows at its tail
    writers = []
    for n in walk_self(f.node):
        if isinstance(n, ast.AugAssign) and is_self_attr(n.target, '_unprepared_middleware'):
            writers.append(('tail' if isinstance(n.op, ast.Add) else 'other', n))
        elif isinstance(n, ast.Assign) and any(is_self_attr(t, '_unprepared_middleware') for t in n.targets):
            v = n.value
            if isinstance(v, ast.BinOp) and isinstance(v.op, ast.Add) and is_self_attr(v.left, '_unprepared_middleware'):
                writers.append(('tail', n))
            else:
                writers.append(('other', n))
        elif isinstance(n, ast.Call) and isinstance(n.func, ast.Attribute) and is_self_attr(n.func.value, '_unprepared_middleware'):
            if n.func.attr in ('append', 'extend'):
                writers.append(('tail', n))
            elif n.func.attr in ('insert', 'reverse', 'sort', 'pop', 'remove', 'clear'):
                writers.append(('other', n))
    if not writers:
        raise AnchorError('add_middleware: no writer of _unprepared_middleware')
    for kind, n in writers:
        run.check(kind == 'tail', 'add_middleware appends new components after the existing ones (registration order is stack order)', f, n)
    # (a') what is appended is the caller's list, whole: every component given is registered ("invoked, in order, as if
    # appended to the original list"); rebindings of the parameter other than making it a list (list(x), [x]) --
    # filtering, de-duplication by equality, slicing, sorting -- drop or reorder stack positions
    mparam = f.params()[1] if len(f.params()) > 1 else None
    if mparam is None:
        raise AnchorError('add_middleware: middleware parameter not found')
    for n in walk_self(f.node):
        tg = n.targets if isinstance(n, ast.Assign) else [n.target] if isinstance(n, (ast.AnnAssign, ast.AugAssign)) and getattr(n, 'value', None) is not None else []
        if not any(isinstance(t, ast.Name) and t.id == mparam for t in tg):
            continue
        v = n.value
        ok = (isinstance(v, ast.Call) and isinstance(v.func, ast.Name) and v.func.id in ('list', 'tuple') and len(v.args) == 1
              and isinstance(v.args[0], ast.Name) and v.args[0].id == mparam and not isinstance(n, ast.AugAssign)) \
            or (isinstance(v, (ast.List, ast.Tuple)) and len(v.elts) == 1 and isinstance(v.elts[0], ast.Name) and v.elts[0].id == mparam
                and not isinstance(n, ast.AugAssign)) \
            or (isinstance(v, (ast.List, ast.Tuple)) and isinstance(v.elts and v.elts[0], ast.Starred) and len(v.elts) == 1
                and isinstance(v.elts[0].value, ast.Name) and v.elts[0].value.id == mparam)
        if ok:
            run.ok('add_middleware only normalises its argument to a list', f.loc(n), n)
        elif isinstance(v, (ast.ListComp, ast.GeneratorExp, ast.SetComp)) or (isinstance(v, ast.Call) and isinstance(v.func, ast.Name)
                                                                             and v.func.id in ('filter', 'set', 'sorted', 'reversed', 'dict', 'frozenset')) \
                or isinstance(v, ast.Subscript) or (isinstance(v, ast.Call) and isinstance(v.func, ast.Attribute) and v.func.attr in ('fromkeys',)):
            run.fail('add_middleware registers every component it is given, in the given order (the argument is not filtered, de-duplicated, '
                     'sliced or reordered before it is appended)', f, n,
                     runtime_witness='two equal (==) components, or the same object placed at two stack positions in two calls: the second '
                                     'position gets no request/resource/response calls')
        else:
            raise UnknownIdiom('add_middleware: the middleware argument is rebound to %s' % short(v))
    # (a'') the argument may be a one-shot iterator (generator, map, iter(list)): while the parameter still holds the
    # caller's object it is traversed at most once on every path -- the traversal that materialises it, or the single
    # one that registers it; a second traversal sees it exhausted and registers nothing.
    # forward may-analysis of "the name still holds the caller's object": killed by every rebinding of the name
    def _binds(node):
        a = node.ast
        tg = []
        if isinstance(a, ast.Assign):
            tg = a.targets
        elif isinstance(a, (ast.AnnAssign, ast.AugAssign)) and getattr(a, 'value', None) is not None:
            tg = [a.target]
        return any(isinstance(t, ast.Name) and t.id == mparam for t in tg)

    def _traversals(node):
        """expressions of this node that iterate the name (not truth tests, isinstance, wrapping it in a display)"""
        out = []
        for x in node.walk():
            it = None
            if isinstance(x, (ast.For, ast.AsyncFor)) and x is node.ast:
                it = [x.iter]
            elif isinstance(x, ast.comprehension):
                it = [x.iter]
            elif isinstance(x, ast.Call):
                fn = x.func.id if isinstance(x.func, ast.Name) else (x.func.attr if isinstance(x.func, ast.Attribute) else None)
                if fn in ('list', 'tuple', 'set', 'frozenset', 'sorted', 'sum', 'len', 'any', 'all', 'max', 'min', 'chain',
                          'extend', 'enumerate', 'zip', 'map', 'filter', 'reversed', 'iter', 'next', 'join', 'dict', 'fromkeys'):
                    it = list(x.args)
            elif isinstance(x, ast.BinOp) and isinstance(x.op, ast.Add):
                it = [x.left, x.right]
            elif isinstance(x, ast.AugAssign) and isinstance(x.op, ast.Add):
                it = [x.value]
            elif isinstance(x, ast.Starred):
                it = [x.value]
            for e in it or []:
                if isinstance(e, ast.Name) and e.id == mparam:
                    out.append(x if not isinstance(x, ast.comprehension) else e)
        return out

    RAW = frozenset(['raw'])

    def _transfer(node, facts, label):
        if _binds(node) and label != 'exc':
            return frozenset()
        return facts

    raw_in = flow.forward(cfg, _transfer, init=RAW, must=False)
    trav_nodes = {}
    for n in cfg.live_nodes():
        if 'raw' in raw_in.get(n.id, ()):
            t = _traversals(n)
            if t:
                trav_nodes[n.id] = t
    n_checked = 0
    for nid, travs in sorted(trav_nodes.items()):
        node = cfg.node(nid)
        # a second traversal: in the same node, or in a node reachable from this one while the name is still raw
        later = []
        if len(travs) > 1:
            later = [node]
        if not _binds(node):
            frontier = flow.reachable(cfg, [y for (y, l) in cfg.succ[nid]], avoid_nodes=[m.id for m in cfg.live_nodes() if _binds(m)])
            later += [cfg.node(m) for m in sorted(frontier) if m in trav_nodes and m != nid]
            # a rebinding node that itself traverses the raw value (list(middleware)) is still a traversal
            for m in cfg.live_nodes():
                if _binds(m) and m.id in trav_nodes and m.id != nid and any(p_ in frontier or p_ == nid for (p_, _l) in cfg.pred[m.id]):
                    later.append(m)
        n_checked += 1
        run.check(not later, 'add_middleware traverses the caller\'s iterable at most once before it is a list '
                             '(a one-shot iterator is empty the second time)', f,
                  (later[0].ast if later and later[0].ast is not None else node.ast),
                  witness=['first traversal: %s' % node.text()] + (['second traversal: %s' % later[0].text()] if later else []),
                  runtime_witness='App(cors_enable=True).add_middleware(iter([a, b])): the duplicate-CORS scan exhausts the iterator, '
                                  'nothing is registered, no method of a or b is ever called')
    if not n_checked:
        raise AnchorError('add_middleware: the middleware argument is never traversed')
    for kind, n in writers:
        val = n.value if isinstance(n, (ast.AugAssign, ast.Assign)) else (n.args[0] if n.args else None)
        if isinstance(n, ast.Assign) and isinstance(val, ast.BinOp):
            val = val.right
        if kind == 'tail' and not (isinstance(val, ast.Name) and val.id == mparam):
            if isinstance(val, (ast.ListComp, ast.GeneratorExp)) or (isinstance(val, ast.Call) and isinstance(val.func, ast.Name) and val.func.id in ('filter', 'set', 'sorted')):
                run.fail('add_middleware registers every component it is given, in the given order', f, n)
            elif val is not None and not (isinstance(val, ast.Call) and isinstance(val.func, ast.Name) and val.func.id in ('list', 'tuple')
                                          and len(val.args) == 1 and isinstance(val.args[0], ast.Name) and val.args[0].id == mparam):
                raise UnknownIdiom('add_middleware: appends %s, not its argument' % short(val))
    # (b) the prepared stacks are rebuilt from the full list with the configured mode on every normal path
    assigns = [n for n in walk_self(f.node) if isinstance(n, ast.Assign) and any(is_self_attr(t, '_middleware') for t in n.targets)]
    a = single(assigns, 'assignment to self._middleware', f.qual)
    call = strip_await(a.value)
    if not (isinstance(call, ast.Call) and dotted(call.func) == 'self._prepare_middleware'):
        raise UnknownIdiom('add_middleware: self._middleware = %s' % short(a.value))
    mw = _kwarg(call, 'middleware', 0)
    ind = _kwarg(call, 'independent_middleware', 1)
    run.check(mw is not None and is_self_attr(mw, '_unprepared_middleware'), 'stacks are prepared from the complete registered list', f, call)
    run.check(ind is not None and is_self_attr(ind, '_independent_middleware'),
              'stacks are prepared with the app\'s configured independent_middleware mode', f, call)
    nid = single(cfg.nodes_for(a), 'CFG node of the assignment', f.qual)
    path = flow.find_path(cfg, [cfg.entry], [cfg.exit], avoid_nodes=[nid], edge_filter=flow.no_exc)
    run.check(path is None, 'every normal return of add_middleware has re-prepared the stacks', f, a,
              witness=flow.describe_path(cfg, path) if path else None)
    # (c) constructor stores the mode it was given
    init = p.func('falcon.app.App.__init__')
    run.use(init)
    st = [n for n in walk_self(init.node) if isinstance(n, ast.Assign) and any(is_self_attr(t, '_independent_middleware') for t in n.targets)]
    s0 = single(st, 'assignment to self._independent_middleware', init.qual)
    run.check(isinstance(s0.value, ast.Name) and s0.value.id == 'independent_middleware' and 'independent_middleware' in init.params(),
              'App.__init__ stores the independent_middleware argument unchanged', init, s0)
    # (d) both _prepare_middleware wrappers pass their parameters through
    for q, want_asgi in (('falcon.app.App._prepare_middleware', False), ('falcon.asgi.app.App._prepare_middleware', True)):
        g = p.func(q)
        run.use(g)
        calls = [c for c in walk_self(g.node) if isinstance(c, ast.Call) and p.resolve_callable(g, c.func) is p.func('falcon.app_helpers.prepare_middleware')]
        c = single(calls, 'call to prepare_middleware', q)
        params = g.params()
        mw = _kwarg(c, 'middleware', 0)
        ind = _kwarg(c, 'independent_middleware', 1)
        asg = _kwarg(c, 'asgi', 2)
        run.check(isinstance(mw, ast.Name) and mw.id == params[1] and isinstance(ind, ast.Name) and ind.id == params[2],
                  '%s forwards (middleware, independent_middleware) unchanged' % q, g, c)
        asgi_val = p.fold(g.module, asg, None, g) if asg is not None else False
        run.check(asgi_val is want_asgi, '%s selects the %s method variants' % (q, 'async' if want_asgi else 'sync'), g, c)


# ---------------------------------------------------------------------------
# R7 class-level hooks wrap every responder of the class, inherited ones too
# ---------------------------------------------------------------------------

_OWN_NAMESPACE_ONLY = ('vars', '__dict__')          # miss inherited members
_MRO_WIDE = ('getmembers', 'dir')                   # inspect.getmembers / dir() walk the MRO


_MRO_WALK = ('__mro__', 'mro', 'getmro')              # an explicit walk over the classes of the MRO


def _enum_names(exprs):
    names = set()
    for e in exprs:
        for x in ast.walk(e):
            if isinstance(x, ast.Call) and isinstance(x.func, ast.Name):
                names.add(x.func.id)
            elif isinstance(x, ast.Call) and isinstance(x.func, ast.Attribute):
                names.add(x.func.attr)
            elif isinstance(x, ast.Attribute):
                names.add(x.attr)
    return names


def _own_namespace_of(e, pname):
    """`vars(<pname>)` / `<pname>.__dict__` occurs in e: the namespace of that one class"""
    for x in ast.walk(e):
        if isinstance(x, ast.Call) and isinstance(x.func, ast.Name) and x.func.id == 'vars' and len(x.args) == 1 \
                and isinstance(x.args[0], ast.Name) and x.args[0].id == pname:
            return True
        if isinstance(x, ast.Attribute) and x.attr == '__dict__' and isinstance(x.value, ast.Name) and x.value.id == pname:
            return True
    return False


def _member_listing_helper(p, g, it, param):
    """`it` = [list|tuple|sorted](helper(<param>)) with helper a function of the
    same module: (helper, its parameter for the class, the iterables of its
    loops and comprehensions), else None.  A local of the helper bound once from
    an expression over the class (`ns = vars(cls)`) is read as that expression."""
    e = it
    while isinstance(e, ast.Call) and isinstance(e.func, ast.Name) and e.func.id in ('list', 'tuple', 'sorted') and len(e.args) == 1:
        e = e.args[0]
    if not (isinstance(e, ast.Call) and isinstance(e.func, ast.Name)):
        return None
    pos = [i for i, a in enumerate(e.args) if isinstance(a, ast.Name) and a.id == param]
    if len(pos) != 1 or e.keywords and any(isinstance(k.value, ast.Name) and k.value.id == param for k in e.keywords):
        return None
    h = p.resolve_callable(g, e.func)
    if h is None or isinstance(h, str) or not hasattr(h, 'params') or h.cls is not None:
        return None
    hp = h.params()
    if pos[0] >= len(hp):
        return None
    hparam = hp[pos[0]]
    if any(isinstance(x, ast.Name) and x.id == hparam and isinstance(x.ctx, (ast.Store, ast.Del)) for x in ast.walk(h.node)):
        raise UnknownIdiom('%s: rebinds its class parameter %s' % (h.qual, hparam))
    enums = []
    for x in ast.walk(h.node):
        if isinstance(x, (ast.For, ast.AsyncFor)):
            enums.append(x.iter)
        elif isinstance(x, ast.comprehension):
            enums.append(x.iter)
    # locals bound once from an expression over the class stand for that expression
    out = []
    for en in enums:
        extra = []
        for x in ast.walk(en):
            if isinstance(x, ast.Name) and x.id != hparam:
                binds = [a for a in ast.walk(h.node) if isinstance(a, ast.Assign) and len(a.targets) == 1
                         and isinstance(a.targets[0], ast.Name) and a.targets[0].id == x.id]
                stores = sum(1 for y in ast.walk(h.node) if isinstance(y, ast.Name) and y.id == x.id and isinstance(y.ctx, ast.Store))
                if len(binds) == 1 and stores == 1 and any(isinstance(y, ast.Name) and y.id == hparam for y in ast.walk(binds[0].value)):
                    extra.append(binds[0].value)
        out.append(en)
        out += extra
    if not out:
        return None
    return h, hparam, out


def r7_class_hooks(run):
    """`@before(...)`/`@after(...)` on a class wraps the class's responders;
    a responder inherited from a base class is a responder of that class.  The
    discovery must therefore enumerate members across the MRO.  Frozen table:
    inspect.getmembers / dir() do; vars(cls) / cls.__dict__ only see the class's
    own namespace.  W: a rejecting before-hook on a subclass that inherits
    on_get from its base never runs."""
    p = run.project
    for outer_q in ('falcon.hooks.before', 'falcon.hooks.after'):
        outer = p.func(outer_q)
        inner = [g for g in outer.nested.values()]
        if len(inner) != 1:
            raise AnchorError('%s: expected one decorator closure, found %d' % (outer_q, len(inner)))
        g = inner[0]
        run.use(g)
        param = g.params()[0]
        # the wrapper the decorator applies is its own: before -> _wrap_with_before, after -> _wrap_with_after,
        # whether it is called directly or handed to a helper
        want_wrapper = '_wrap_with_' + outer.name
        refs = sorted({x.id for x in ast.walk(outer.node) if isinstance(x, ast.Name) and x.id.startswith('_wrap_with_')})
        run.check(refs == [want_wrapper], '%s applies %s (and no other wrapper) to the responders it decorates' % (outer.name, want_wrapper),
                  outer, 'wrappers referenced: %s' % (', '.join(refs) or 'none'), where=outer.loc(),
                  runtime_witness='@falcon.before(hook) on a class runs the hook AFTER the responder')
        loops = [n for n in walk_self(g.node) if isinstance(n, (ast.For, ast.AsyncFor))
                 and any(isinstance(x, ast.Name) and x.id == param for x in ast.walk(n.iter))]
        if not loops:
            # the member loop may live in a module-level helper that is handed the decorated class: look through it
            mod_q = outer_q.rsplit('.', 1)[0]
            for c in walk_self(g.node):
                if isinstance(c, ast.Call) and isinstance(c.func, ast.Name):
                    pos = [i for i, a in enumerate(c.args) if isinstance(a, ast.Name) and a.id == param]
                    if len(pos) != 1:
                        continue
                    try:
                        h = p.func(mod_q + '.' + c.func.id)
                    except Exception:
                        continue
                    hp = h.params()
                    if pos[0] >= len(hp):
                        continue
                    hparam = hp[pos[0]]
                    hl = [n for n in walk_self(h.node) if isinstance(n, (ast.For, ast.AsyncFor))
                          and any(isinstance(x, ast.Name) and x.id == hparam for x in ast.walk(n.iter))]
                    rebound = any(isinstance(x, ast.Name) and x.id == hparam and isinstance(x.ctx, ast.Store) for x in ast.walk(h.node))
                    if hl and not rebound:
                        g, param, loops = h, hparam, hl
                        run.use(h)
                        break
        if not loops:
            raise AnchorError('%s: no loop over the members of the decorated class' % g.qual)
        for lp in loops:
            names = _enum_names([lp.iter])
            if names & set(_OWN_NAMESPACE_ONLY):
                run.fail('%s enumerates only the decorated class\'s own namespace: inherited responders are not wrapped, the hook never runs for them' % outer.name,
                         g, lp.iter, runtime_witness='class Base: on_get...; @falcon.before(reject) class Child(Base): pass -> GET reaches on_get without the hook')
            elif names & set(_MRO_WIDE):
                run.ok('%s enumerates the members of the decorated class across its MRO' % outer.name, g.loc(lp), lp.iter)
            else:
                # the (name, member) pairs may be listed by a module-level helper that is handed the decorated class:
                # the enumeration is then the helper's own loops / comprehensions over that class
                hh = _member_listing_helper(p, g, lp.iter, param)
                if hh is None:
                    raise UnknownIdiom('%s: member enumeration %s' % (g.qual, short(lp.iter)))
                h, hparam, enums = hh
                run.use(h)
                # a membership filter on the class's own namespace inside the helper has the same effect as enumerating it
                filt = [t for t in ast.walk(h.node) if isinstance(t, ast.Compare) and any(isinstance(o, (ast.In, ast.NotIn)) for o in t.ops)
                        and any(_own_namespace_of(c, hparam) for c in t.comparators)]
                for t in filt:
                    run.fail('%s filters the members by the decorated class\'s own namespace: inherited responders are not wrapped, the hook never runs for them' % outer.name,
                             h, t, runtime_witness='class Base: on_get...; @falcon.before(reject) class Child(Base): pass -> GET reaches on_get without the hook')
                enums = [e for e in enums if not any(e is c or any(x is e for x in ast.walk(c)) for t in filt for c in t.comparators)]
                own = [e for e in enums if _own_namespace_of(e, hparam)]
                wide = [e for e in enums if _enum_names([e]) & set(_MRO_WIDE + _MRO_WALK)]
                foreign = [e for e in enums if _enum_names([e]) & set(_OWN_NAMESPACE_ONLY) and not _own_namespace_of(e, hparam)]
                if own and not wide:
                    run.fail('%s enumerates only the decorated class\'s own namespace: inherited responders are not wrapped, the hook never runs for them' % outer.name,
                             h, own[0], runtime_witness='class Base: on_get...; @falcon.before(reject) class Child(Base): pass -> GET reaches on_get without the hook')
                elif wide and not own and (not foreign or any(_enum_names([e]) & set(_MRO_WALK) for e in wide)):
                    run.ok('%s enumerates the members of the decorated class across its MRO (through %s)' % (outer.name, h.name), h.loc(wide[0]), wide[0])
                else:
                    raise UnknownIdiom('%s: member enumeration %s' % (h.qual, ', '.join(short(e) for e in enums) or short(lp.iter)))
            # a filter inside the loop that keeps only names of the class's OWN namespace has the same effect
            own_names = set()
            for a in walk_self(g.node):
                if isinstance(a, ast.Assign) and len(a.targets) == 1 and isinstance(a.targets[0], ast.Name):
                    vn = set()
                    for x in ast.walk(a.value):
                        if isinstance(x, ast.Call) and isinstance(x.func, ast.Name):
                            vn.add(x.func.id)
                        elif isinstance(x, ast.Attribute):
                            vn.add(x.attr)
                    if vn & set(_OWN_NAMESPACE_ONLY) and any(isinstance(x, ast.Name) and x.id == param for x in ast.walk(a.value)):
                        own_names.add(a.targets[0].id)
            for t in walk_self(lp):
                if isinstance(t, ast.Compare) and any(isinstance(o, (ast.In, ast.NotIn)) for o in t.ops):
                    for c in t.comparators:
                        cn = set()
                        for x in ast.walk(c):
                            if isinstance(x, ast.Call) and isinstance(x.func, ast.Name):
                                cn.add(x.func.id)
                            elif isinstance(x, ast.Attribute):
                                cn.add(x.attr)
                            elif isinstance(x, ast.Name) and x.id in own_names:
                                cn.add('vars')
                        if cn & set(_OWN_NAMESPACE_ONLY):
                            run.fail('%s filters the members by the decorated class\'s own namespace: inherited responders are not wrapped, the hook never runs for them' % outer.name,
                                     g, t, runtime_witness='class Base: on_get...; @falcon.before(reject) class Child(Base): pass -> GET reaches on_get without the hook')
            # the wrapped responder is installed back on the class under the same name
            sets = [c for c in walk_self(lp) if isinstance(c, ast.Call) and isinstance(c.func, ast.Name) and c.func.id == 'setattr' and len(c.args) == 3]
            tgt = lp.target.elts[0].id if isinstance(lp.target, ast.Tuple) and isinstance(lp.target.elts[0], ast.Name) else None
            run.check(bool(sets) and all(isinstance(c.args[0], ast.Name) and c.args[0].id == param and isinstance(c.args[1], ast.Name) and c.args[1].id == tgt for c in sets),
                      '%s installs each wrapped responder on the class under its own name' % outer.name, g, sets[0] if sets else lp.iter)


def r8_decorable_names(run):
    """Class-level hooks wrap the members whose name the module's responder
    pattern accepts.  The router installs a responder for every method of
    falcon.constants.COMBINED_METHODS (HTTP + WebDAV + custom), so the pattern
    must be built from a method table that covers all of them: built from a
    smaller table, `@before(...)` on a class silently skips on_propfind,
    on_lock, ... and the hook discipline fails for those verbs."""
    p = run.project
    hooks = p.module('falcon.hooks')
    consts = p.module('falcon.constants')

    def leaves(m, name, depth=0):
        """method tables a module-level name is concatenated from:
        {leaf qualified name: folded value or None (environment dependent)}"""
        if depth > 6:
            raise UnknownIdiom('method table %s: definition too deep' % name)
        if name not in m.consts:
            q = p.resolve_expr(m, ast.Name(name, ast.Load()))
            if q and '.' in q:
                mq, _, nm = q.rpartition('.')
                try:
                    m2 = p.module(mq)
                except Exception:
                    return None
                if m2 is not m or nm != name:
                    return leaves(m2, nm, depth + 1)
            return None
        e = m.consts[name]
        parts = []

        def split(x):
            if isinstance(x, ast.BinOp) and isinstance(x.op, ast.Add):
                split(x.left)
                split(x.right)
            else:
                parts.append(x)

        split(e)
        if len(parts) > 1 or isinstance(parts[0], ast.Name):
            out = {}
            for x in parts:
                sub = leaves(m, x.id, depth + 1) if isinstance(x, ast.Name) else None
                if sub is None:
                    v = p.fold(m, x)
                    if isinstance(v, (list, tuple)) and all(isinstance(t, str) for t in v):
                        sub = {'%s.<literal %s>' % (m.name, short(x)[:30]): set(v)}
                    else:
                        return None
                out.update(sub)
            return out
        v = p.fold(m, e)
        if isinstance(v, (list, tuple, frozenset)) and all(isinstance(t, str) for t in v):
            return {'%s.%s' % (m.name, name): set(v)}
        if isinstance(e, (ast.ListComp, ast.List, ast.Tuple)):
            return {'%s.%s' % (m.name, name): None}
        return None

    want = leaves(consts, 'COMBINED_METHODS')
    if not want or not any(v for v in want.values()):
        raise AnchorError('falcon.constants.COMBINED_METHODS is not a concatenation of method tables')
    # the pattern object(s) consulted by the class-decorator loops
    used = set()
    for outer_q in ('falcon.hooks.before', 'falcon.hooks.after'):
        for g in p.func(outer_q).nested.values():
            # the closure itself, plus module-level helpers of falcon.hooks it calls (an extracted member loop)
            bodies = [g.node]
            for c in walk_self(g.node):
                if isinstance(c, ast.Call) and isinstance(c.func, ast.Name):
                    try:
                        bodies.append(p.func('falcon.hooks.' + c.func.id).node)
                    except Exception:
                        pass
            for body in bodies:
                for c in walk_self(body):
                    if isinstance(c, ast.Call) and isinstance(c.func, ast.Attribute) and c.func.attr in ('match', 'fullmatch', 'search') \
                            and isinstance(c.func.value, ast.Name) and c.func.value.id in hooks.consts:
                        used.add(c.func.value.id)
    if not used:
        raise AnchorError('falcon.hooks: no module-level responder-name pattern is consulted by before()/after()')
    for name in sorted(used):
        expr = hooks.consts[name]
        have = {}
        for x in ast.walk(expr):
            if isinstance(x, ast.Name) and isinstance(x.ctx, ast.Load):
                lv = leaves(hooks, x.id)
                if lv:
                    have.update(lv)
        if not have:
            raise UnknownIdiom('falcon.hooks.%s is not built from a method table: %s' % (name, short(expr)))
        have_vals = set().union(*[v for v in have.values() if v])
        missing_tables = sorted(k for k, v in want.items() if k not in have and not (v and v <= have_vals))
        missing = sorted(set().union(*[want[k] or {k.rsplit('.', 1)[1]} for k in missing_tables])) if missing_tables else []
        run.check(not missing_tables, 'the responder-name pattern used by class-level hooks is built from method tables covering COMBINED_METHODS', 'falcon.hooks',
                  'falcon.hooks.%s' % name, where='falcon/hooks.py:%s' % getattr(expr, 'lineno', '?'),
                  witness=['built from %s' % ', '.join(sorted(k.rsplit('.', 1)[1] for k in have)), 'not covered: %s' % ', '.join(missing[:8])],
                  runtime_witness='@falcon.before(hook) on a class with on_%s: the hook never runs for that verb' % (missing[0].lower() if missing else 'x'))


def r9_resource_from_route(run):
    """Resource methods (process_resource) and the `resource` argument of
    process_response are for ROUTED requests: the framework gates them on the
    resource element that _get_responder returns.  That element is bound only
    from the router's answer (or None): a sink or a static route serving the
    request must not be reported as a resource, or every process_resource runs
    for requests no route matched."""
    p = run.project
    f = p.func('falcon.app.App._get_responder')
    run.use(f)
    rets = [r for r in walk_self(f.node) if isinstance(r, ast.Return) and isinstance(r.value, ast.Tuple)]
    if not rets:
        raise AnchorError('_get_responder: no tuple return')
    # position of the resource element: the name that the callers unpack third (responder, params, resource, uri_template)
    res_names = set()
    direct = []  # returns that give the resource element directly (early returns): judged like a binding
    for r in rets:
        if len(r.value.elts) < 3:
            raise UnknownIdiom('_get_responder: return shape %s' % short(r.value))
        e = r.value.elts[2]
        if isinstance(e, ast.Name):
            res_names.add(e.id)
        else:
            direct.append((r, e))
    # the router's answer: a local bound from self._router_search(...)
    route_names = set()
    for a in walk_self(f.node):
        if isinstance(a, ast.Assign) and isinstance(a.value, ast.Call) and isinstance(a.value.func, ast.Attribute) \
                and a.value.func.attr in ('_router_search', 'find'):
            route_names |= {t.id for t in a.targets if isinstance(t, ast.Name)}
    if not route_names:
        raise AnchorError('_get_responder: router lookup not found')
    n = 0
    for r, e in direct:
        n += 1
        ok = (isinstance(e, ast.Constant) and e.value is None) \
            or (isinstance(e, ast.Subscript) and isinstance(e.value, ast.Name) and e.value.id in route_names)
        run.check(ok, '_get_responder binds the resource element of its answer only from the router\'s result (or None)', f, r,
                  runtime_witness='a request served by a sink or static route: process_resource of every middleware component runs although no route matched')
    for a in walk_self(f.node):
        tgts = []
        if isinstance(a, ast.Assign):
            for t in a.targets:
                tgts += list(t.elts) if isinstance(t, (ast.Tuple, ast.List)) else [t]
            val = a.value
        elif isinstance(a, (ast.AnnAssign, ast.AugAssign)) and a.value is not None:
            tgts, val = [a.target], a.value
        elif isinstance(a, ast.NamedExpr):
            tgts, val = [a.target], a.value
        elif isinstance(a, (ast.For, ast.AsyncFor)):
            tgts = list(a.target.elts) if isinstance(a.target, (ast.Tuple, ast.List)) else [a.target]
            val = a.iter
        else:
            continue
        if not any(isinstance(t, ast.Name) and t.id in res_names for t in tgts):
            continue
        n += 1
        ok = (isinstance(val, ast.Constant) and val.value is None) or (isinstance(val, ast.Name) and val.id in route_names) \
            or (isinstance(val, ast.Subscript) and isinstance(val.value, ast.Name) and val.value.id in route_names)
        run.check(ok, '_get_responder binds the resource element of its answer only from the router\'s result (or None)', f, a,
                  runtime_witness='a request served by a sink or static route: process_resource of every middleware component runs although no route matched')
    if not n:
        raise AnchorError('_get_responder: no binding of the resource element')


# ---------------------------------------------------------------------------
# R11 the positional/keyword merge of a hooked responder called directly
# ---------------------------------------------------------------------------

def r11_merge_args(run):
    """`_merge_responder_args` runs before any hook or responder of a wrapper
    that was called directly with positional arguments.  A keyword the caller
    supplied is recognised by KEY (membership in kwargs): its value - None,
    '', 0 - plays no part; only names absent from kwargs take the positional
    value of the same index.  Decided on the loop's guards."""
    p = run.project
    f = p.func('falcon.hooks._merge_responder_args')
    params = [a.arg for a in f.node.args.args]
    if len(params) != 3:
        raise AnchorError('_merge_responder_args: expected (args, kwargs, argnames), found %s' % params)
    p_args, p_kwargs, p_names = params
    loops = [n for n in ast.walk(f.node) if isinstance(n, ast.For)]
    loop = single(loops, 'loop over the argument names', f.qual)
    it = loop.iter
    if not (isinstance(it, ast.Call) and isinstance(it.func, ast.Name) and it.func.id == 'enumerate'
            and len(it.args) == 1 and isinstance(it.args[0], ast.Name) and it.args[0].id == p_names
            and isinstance(loop.target, ast.Tuple) and len(loop.target.elts) == 2
            and all(isinstance(e, ast.Name) for e in loop.target.elts)):
        raise UnknownIdiom('_merge_responder_args: loop is not `for i, name in enumerate(%s)`: %s' % (p_names, short(loop)))
    v_i, v_name = (e.id for e in loop.target.elts)
    stores = [a for a in ast.walk(loop) if isinstance(a, ast.Assign) and len(a.targets) == 1
              and isinstance(a.targets[0], ast.Subscript) and isinstance(a.targets[0].value, ast.Name)
              and a.targets[0].value.id == p_kwargs]
    store = single(stores, 'store into kwargs', f.qual)
    ok_store = (isinstance(store.targets[0].slice, ast.Name) and store.targets[0].slice.id == v_name
                and isinstance(store.value, ast.Subscript) and isinstance(store.value.value, ast.Name)
                and store.value.value.id == p_args and isinstance(store.value.slice, ast.Name) and store.value.slice.id == v_i)
    run.check(ok_store, 'the merge stores the positional value of the same index under the argument name', f, store)

    def is_membership(t):
        # `name in kwargs` / `name not in kwargs` (also kwargs.keys())
        if isinstance(t, ast.UnaryOp) and isinstance(t.op, ast.Not):
            r = is_membership(t.operand)
            return None if r is None else (not r)
        if isinstance(t, ast.Compare) and len(t.ops) == 1 and isinstance(t.left, ast.Name) and t.left.id == v_name:
            c = t.comparators[0]
            if isinstance(c, ast.Call) and isinstance(c.func, ast.Attribute) and c.func.attr == 'keys' and not c.args:
                c = c.func.value
            if isinstance(c, ast.Name) and c.id == p_kwargs:
                if isinstance(t.ops[0], ast.In):
                    return True
                if isinstance(t.ops[0], ast.NotIn):
                    return False
        return None

    cfg = cfg_of(f, p)
    run.use_cfg(cfg)
    body_nodes = nodes_within(cfg, loop.body)
    tests = [cfg.node(i) for i in sorted(body_nodes) if cfg.node(i).kind == 'test']
    store_ids = [i for i in cfg.nodes_for(store) if i in body_nodes]
    if not store_ids or not tests:
        raise AnchorError('_merge_responder_args: no guard before the store into kwargs')
    for t in tests:
        sense = is_membership(t.ast)
        reads_value = any((isinstance(x, ast.Subscript) and isinstance(x.value, ast.Name) and x.value.id == p_kwargs
                           and isinstance(x.ctx, ast.Load))
                          or (isinstance(x, ast.Call) and isinstance(x.func, ast.Attribute)
                              and isinstance(x.func.value, ast.Name) and x.func.value.id == p_kwargs
                              and x.func.attr in ('get', 'pop', 'setdefault', 'values', 'items'))
                          for x in ast.walk(t.ast))
        if sense is None and not reads_value:
            raise UnknownIdiom('_merge_responder_args: unrecognised guard in the merge loop: %s' % short(t.ast))
        run.check(sense is not None,
                  'a keyword supplied by the caller is recognised by key membership, not by its value', f, t.ast,
                  runtime_witness='hooked responder called as on_get(req, resp, item_id, fmt=None): the None keyword is taken for missing, args[1] raises IndexError before any hook runs')
        if sense is None:
            continue
        # the store is reached only through the "absent" branch
        absent = 'F' if sense else 'T'
        present = 'T' if sense else 'F'
        head = cfg.nodes_for(loop)
        via_present = flow.reachable(cfg, [y for (y, l) in cfg.succ[t.id] if l == present], avoid_nodes=head, edge_filter=flow.no_exc)
        via_absent = flow.reachable(cfg, [y for (y, l) in cfg.succ[t.id] if l == absent], avoid_nodes=head, edge_filter=flow.no_exc)
        run.check(not (set(store_ids) & via_present) and bool(set(store_ids) & via_absent),
                  'only names absent from kwargs take a positional value (a supplied keyword is never overwritten)', f, t.ast)


def check(run):
    run.assume('user middleware does not mutate the prepared stacks at run time')
    run.assume('events of a call node are considered to have happened before its exceptional edge is taken')
    run.rule('R1', r1_sibling_equal, 'WSGI and ASGI __call__ are event-language-equal over the middleware alphabet', floor=1)
    run.rule('R2', r2_discipline, 'documented middleware/responder discipline on each __call__', floor=16)
    run.rule('R3', r3_stacks, 'prepare_middleware stack polarity', floor=4)
    run.rule('R4', r4_hooks, 'before/after hook wrappers', floor=6)
    run.rule('R5', r5_lifespan, 'lifespan handler sequencing', floor=10)
    run.rule('R7', r7_class_hooks, 'class-level hooks cover inherited responders', floor=4)
    run.rule('R8', r8_decorable_names, 'the responder-name pattern of class-level hooks covers every routable method', floor=1)
    run.rule('R9', r9_resource_from_route, 'the resource handed to resource/response methods comes from the router only', floor=2)
    run.rule('R6', r6_wiring, 'registration order and mode wiring of the prepared stacks', floor=9)
    from . import c04 as _c04
    run.rule('R10', _c04.r5_handler_raises_nothing, 'the handler of last resort raises nothing itself, so process_response still runs after an unexpected exception (shared with C04 R5)', floor=4)
    run.rule('R11', r11_merge_args, 'direct calls of a hooked responder: keywords are recognised by key when merging positional arguments', floor=3)
