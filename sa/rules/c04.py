"""C04 - exceptions become the most specific handler's response
(DESIGN.md section 3, C04)."""

from __future__ import annotations

import ast
import re
from typing import Dict, List, Optional, Set, Tuple

from .. import flow
from ..cfg import cfg_of
from ..escape import TOTAL_CODECS
from ..model import UNKNOWN, AnchorError, Func, UnknownIdiom, attr_chain as _attr_chain, dotted, short, unparse
from .appflow import ASGI_CALL, WSGI_CALL, AppFlow
from .c04_helpers import (DROP, Index, aliases as _aliases, SiteEscape, assume_none, assigned_none_attrs, attr_of, catches_exception, combine,
                          def_value, effective_method, eval3, handler_class_quals, is_name, none_test, param_at, project_pruned, pruned,
                          refuted, split_key, subject_tests, undecided_subject_test)
from . import c09_helpers as _c9
from .common import is_self_attr, mentions, nodes_within, single, strip_await, walk_self

WSGI_APP = 'falcon.app.App'
ASGI_APP = 'falcon.asgi.app.App'
HTTP_ERROR = 'falcon.http_error.HTTPError'
HTTP_STATUS = 'falcon.http_status.HTTPStatus'
APPS = ((WSGI_APP, WSGI_CALL, 'WSGI'), (ASGI_APP, ASGI_CALL, 'ASGI'))


REQUIRED_METHODS = ('_handle_exception', '_find_error_handler', '_compose_error_response', '_compose_status_response',
                    'add_error_handler', '__call__', '__init__')

from ..model import walk_no_nested  # noqa: E402


def _anchors(p):
    """Contract names every rule relies on; a rename makes the check exit 2 instead of accusing the property."""
    for app in (WSGI_APP, ASGI_APP):
        p.cls(app)
        for m in REQUIRED_METHODS:
            effective_method(p, app, m)
    init = p.func(WSGI_APP + '.__init__')
    for attr in ('_error_handlers', '_serialize_error', '_request_type', '_response_type'):
        if not any(isinstance(n, ast.Assign) and any(is_self_attr(t, attr) for t in n.targets) for n in walk_self(init.node)):
            raise AnchorError('%s does not initialise self.%s' % (init.qual, attr))
    for q in (HTTP_ERROR, HTTP_STATUS):
        p.cls(q)
    for m in ('set_headers', 'append_header'):
        if p.lookup_method('falcon.response.Response', m) is None:
            raise AnchorError('falcon.response.Response.%s not found' % m)


def _truthy(name: str):
    """Atom valuation: the local `name` is a real (truthy) object."""
    return lambda e: True if is_name(e, name) else None


def _all_paths_through(cfg, nodes, edge_filter=flow.no_exc, start=None):
    """None if every normal path start -> exit passes one of `nodes`,
    otherwise a counter-example path."""
    return flow.find_path(cfg, [cfg.entry if start is None else start], [cfg.exit], avoid_nodes=nodes, edge_filter=edge_filter)


def _call_nodes(ix: Index, calls) -> List[int]:
    out = []
    for c in calls:
        out.extend(ix.nodes_of(c))
    return sorted(set(out))


# ---------------------------------------------------------------------------
# R1 four windows
# ---------------------------------------------------------------------------

def _is_render_call(p, fn: Func, c: ast.Call, depth=0) -> bool:
    """The call renders the response body: `<x>._get_body(...)` / `<x>.render_body()` or a resolved helper that does."""
    if isinstance(c.func, ast.Attribute) and c.func.attr in ('_get_body', 'render_body'):
        return True
    t = p.callee(fn, c) if depth < 2 else None
    return isinstance(t, Func) and any(isinstance(x, ast.Call) and _is_render_call(p, t, x, depth + 1) for x in walk_self(t.node))


def _render_calls_protected(run, af: AppFlow, tag: str, outside_only: bool) -> List[int]:
    """Every call of the body renderer in __call__ - wherever it stands - has only `except <every Exception>` arms as
    exceptional successors.  A second `_get_body()` / `render_body()` placed in the except arm of the rendering
    window (to send what the handler composed) is outside every window: a second rendering failure - the error
    document negotiated to the same failing media handler - reaches the server, which gets no response at all.
    -> ids of the arms that protect the calls found outside the rendering window (their discipline is R1's)."""
    p = run.project
    cfg, f = af.cfg, af.func
    calls = [n.id for n in cfg.live_nodes() if n.kind not in ('entry', 'exit', 'xexit', 'join')
             and any(_is_render_call(p, f, c) for c in n.calls())]
    if not calls:
        raise AnchorError('%s: no call of the body renderer' % f.qual)
    arms: List[int] = []
    for nid in sorted(calls):
        inside = nid in af.render_nodes
        if inside and outside_only:
            continue
        node = cfg.node(nid)
        tg = [cfg.node(y) for (y, l) in cfg.succ[nid] if l == 'exc']
        app = [t for t in tg if t.kind == 'handler' and catches_exception(p, f, t.ast)]
        leaks = [t for t in tg if t.kind != 'handler']
        text = short(node.ast if node.ast is not None else node.text())
        run.check(bool(app) and not leaks,
                  '%s: every call of the body renderer runs inside a try whose except arm catches every Exception '
                  '(also one that renders again after a handled failure)' % tag,
                  f, text if inside else 'body rendered outside the rendering window: ' + text,
                  where='%s:%s' % (f.file, node.lineno), witness=['exceptional successors: ' + ', '.join(t.text() for t in tg)],
                  runtime_witness='a media handler that raises for resp.media AND for the error document negotiated to its type '
                                  '(Accept prefers it): the second failure escapes the app callable - no start_response / no response '
                                  'start event - instead of giving a 500')
        if not inside:
            arms.extend(t.id for t in app)
    return arms


def r1_render_calls_protected(run):
    """Shared with C05 (R14): a rendering failure never leaves the app callable without a response having been started."""
    _anchors(run.project)
    for _app, qual, tag in APPS:
        _render_calls_protected(run, AppFlow(run.project, qual), tag, outside_only=False)


def _windows(run, qual, tag):
    p = run.project
    af = AppFlow(p, qual)
    cfg = af.cfg
    f = af.func
    run.use_cfg(cfg)
    ix = Index(cfg)
    user: List[Tuple[str, int]] = []
    for lab in ('REQ', 'ROUTE', 'RSRC', 'RESP', 'PRESP'):
        ns = af.nodes_labelled(lab)
        if not ns:
            raise AnchorError('%s: no %s event found' % (qual, lab))
        user.extend((lab, n) for n in ns)
    render = [n for n in sorted(af.render_nodes) if any(l == 'exc' for (_y, l) in cfg.succ[n])]
    if not render:
        raise AnchorError('%s: body rendering has no raising statement' % qual)
    user.extend(('RENDER', n) for n in render)

    # ... and EVERY call of the body renderer, wherever it stands (r1_render_calls_protected)
    handlers: Set[int] = set(_render_calls_protected(run, af, tag, outside_only=True))
    for lab, nid in user:
        node = cfg.node(nid)
        tg = [cfg.node(y) for (y, l) in cfg.succ[nid] if l == 'exc']
        app = [t for t in tg if t.kind == 'handler' and catches_exception(p, f, t.ast)]
        leaks = [t for t in tg if t.kind != 'handler']
        ok = bool(app) and not leaks
        run.check(ok, '%s: %s (user code / rendering) runs inside a try whose except arm catches every Exception' % (tag, lab),
                  f, node.ast if node.ast is not None else node.text(), where='%s:%s' % (f.file, node.lineno),
                  witness=['exceptional successors: ' + ', '.join(t.text() for t in tg)],
                  runtime_witness='an exception raised by this call reaches the server instead of an error handler')
        handlers.update(t.id for t in app)

    handle_nodes = set(af.nodes_labelled('HANDLE'))
    if not handle_nodes:
        raise AnchorError('%s: self._handle_exception is never called' % qual)
    # branch edges that can only be taken when _handle_exception returned false
    is_call = lambda e: isinstance(strip_await(e), ast.Call) and dotted(strip_await(e).func) == 'self._handle_exception'  # noqa: E731
    res_names = _aliases(f, is_call)
    is_res = lambda e: is_call(e) or (isinstance(e, ast.Name) and e.id in res_names)  # noqa: E731
    hfail, hok, undecided = [], [], []
    for n in cfg.live_nodes():
        if n.kind != 'test' or not mentions(n.ast, is_res):
            continue
        v_t = eval3(n.ast, lambda e: True if is_res(e) else None)
        v_f = eval3(n.ast, lambda e: False if is_res(e) else None)
        if v_t is None or v_f is None or v_t == v_f:
            undecided.append(n.ast)
            continue
        hfail.extend((n.id, y, l) for (y, l) in cfg.succ[n.id] if l in ('T', 'F') and (l == 'T') == v_f)
        hok.extend((n.id, y, l) for (y, l) in cfg.succ[n.id] if l in ('T', 'F') and (l == 'T') == v_t)
    for h in sorted(handlers):
        hn = cfg.node(h)
        arm = hn.ast
        body = nodes_within(cfg, arm.body)
        inside = body | {h}
        where = '%s:%s' % (f.file, hn.lineno)
        label = 'except %s' % (short(arm.type) if arm.type is not None else '')
        outside = [n.id for n in cfg.live_nodes() if n.id not in inside]
        path = flow.find_path(cfg, [h], outside, avoid_nodes=handle_nodes & body, edge_filter=flow.no_exc)
        run.check(path is None and bool(handle_nodes & body),
                  '%s: the except arm hands the exception to _handle_exception before anything else happens' % tag,
                  f, label, where=where, witness=flow.describe_path(cfg, path) if path else None,
                  runtime_witness='an exception in this window is not passed to any registered handler')
        # the caught exception is what is passed on (a handler nested in this arm - rendering again under its own
        # try - passes on its own exception and is checked as an arm of its own)
        nested: Set[int] = set()
        for st in arm.body:
            for h2 in walk_self(st):
                if isinstance(h2, ast.ExceptHandler):
                    nested |= nodes_within(cfg, h2.body)
        for hid in sorted((handle_nodes & body) - nested):
            for c in cfg.node(hid).calls():
                if dotted(c.func) == 'self._handle_exception':
                    exarg = c.args[2] if len(c.args) >= 3 else None
                    run.check(arm.name is not None and is_name(exarg, arm.name),
                              '%s: _handle_exception receives the caught exception' % tag, f, c, where=where)
        # re-raise only when no handler was found
        raises = [n for n in cfg.live_nodes() if n.id in body and n.kind == 'stmt' and isinstance(n.ast, ast.Raise)]
        for r in raises:
            e = r.ast.exc
            if e is not None and not (arm.name and is_name(e, arm.name)):
                raise UnknownIdiom('%s: except arm raises %s' % (qual, short(r.ast)))
            ok = any(e3[0] in inside and ix.dominated_by_edge(r.id, e3) for e3 in hfail)
            if not ok and undecided:
                raise UnknownIdiom('%s: cannot decide what %s says about the result of _handle_exception' % (qual, short(undecided[0])))
            run.check(ok, '%s: the except arm re-raises only when _handle_exception found no handler' % tag, f,
                      label + ': ' + short(r.ast), where='%s:%s' % (f.file, r.lineno),
                      runtime_witness='a handled exception still propagates to the server')

    _render_window_result(run, af, cfg, f, tag, render, hok)


def _render_window_result(run, af, cfg, f, tag, render, hok):
    """A failure of body rendering that was handled produced a new response (status, headers *and body source* set by
    the handler); what is sent afterwards must be rendered from it."""
    p = run.project
    arms = set()
    for nid in render:
        for (y, l) in cfg.succ[nid]:
            t = cfg.node(y)
            if l == 'exc' and t.kind == 'handler' and catches_exception(p, f, t.ast):
                arms.add(y)
    renders = [n.id for n in cfg.live_nodes() if any(_is_render_call(p, f, c) for c in n.calls())]
    out = set(af.nodes_labelled('START')) | set(af.nodes_labelled('SEND'))
    if not out:
        raise AnchorError('%s: no start_response/send call' % f.qual)
    for h in sorted(arms):
        arm = cfg.node(h).ast
        inside = nodes_within(cfg, arm.body) | {h}
        starts = [e[1] for e in hok if e[0] in inside] or [h]
        path = flow.find_path(cfg, starts, sorted(out), avoid_nodes=renders, edge_filter=flow.no_exc)
        run.check(path is None, '%s: after a handled body-rendering failure the response body is rendered from what the handler composed' % tag,
                  f, 'handled rendering failure -> response sent without rendering the handler\'s body', where='%s:%s' % (f.file, cfg.node(h).lineno),
                  witness=flow.describe_path(cfg, path) if path else None,
                  runtime_witness='resp.media = object() (not serializable): 500 with content-type application/json, content-length 0 and an '
                                  'empty body, whereas the same TypeError raised by the responder gives the JSON error document')


def r1_windows(run):
    _anchors(run.project)
    for _app, qual, tag in APPS:
        _windows(run, qual, tag)


# ---------------------------------------------------------------------------
# R2 selection
# ---------------------------------------------------------------------------

def _mro_iter(it, exparam: str, qual: str):
    """-> (reversed?, head trimmed?, base expression)."""
    rev = False
    trimmed = False
    e = it
    while True:
        if isinstance(e, ast.Call) and isinstance(e.func, ast.Name) and e.func.id == 'reversed' and len(e.args) == 1:
            rev = not rev
            e = e.args[0]
        elif isinstance(e, ast.Call) and isinstance(e.func, ast.Name) and e.func.id in ('tuple', 'list', 'iter') and len(e.args) == 1:
            e = e.args[0]
        elif isinstance(e, ast.Subscript) and isinstance(e.slice, ast.Slice):
            s = e.slice
            if s.step is not None:
                st = s.step
                neg = isinstance(st, ast.UnaryOp) and isinstance(st.op, ast.USub) and isinstance(st.operand, ast.Constant)
                if neg and st.operand.value == 1 and s.lower is None and s.upper is None:
                    rev = not rev
                elif isinstance(st, ast.Constant) and st.value == 1:
                    pass
                else:
                    raise UnknownIdiom('%s: slice step %s over the MRO' % (qual, short(e.slice)))
            if s.lower is not None and not (isinstance(s.lower, ast.Constant) and s.lower.value == 0):
                if isinstance(s.lower, ast.Constant) and isinstance(s.lower.value, int) and s.lower.value > 0:
                    trimmed = True
                else:
                    raise UnknownIdiom('%s: slice lower bound %s over the MRO' % (qual, short(e.slice)))
            e = e.value
        else:
            break
    base = e
    if isinstance(base, ast.Call) and isinstance(base.func, ast.Attribute) and base.func.attr == 'mro' and not base.args:
        owner = base.func.value
    elif isinstance(base, ast.Attribute) and base.attr == '__mro__':
        owner = base.value
    else:
        raise UnknownIdiom('%s: handler search does not iterate an MRO: %s' % (qual, short(it)))
    is_type = (isinstance(owner, ast.Call) and isinstance(owner.func, ast.Name) and owner.func.id == 'type'
               and len(owner.args) == 1 and is_name(owner.args[0], exparam))
    is_cls = isinstance(owner, ast.Attribute) and owner.attr == '__class__' and is_name(owner.value, exparam)
    if not (is_type or is_cls):
        raise UnknownIdiom('%s: MRO of %s is not that of the raised exception' % (qual, short(owner)))
    return rev, trimmed


def _derived(func: Func, seed: str) -> Set[str]:
    """Names whose value (flow-insensitively) derives from parameter `seed`."""
    names = {seed}
    changed = True
    while changed:
        changed = False
        for n in walk_self(func.node):
            tgt = None
            val = None
            if isinstance(n, ast.Assign):
                tgt, val = n.targets, n.value
            elif isinstance(n, ast.AnnAssign) and n.value is not None:
                tgt, val = [n.target], n.value
            elif isinstance(n, (ast.For, ast.AsyncFor)):
                tgt, val = [n.target], n.iter
            if tgt is None:
                continue
            if any(isinstance(x, ast.Name) and x.id in names for x in ast.walk(val)):
                for t in tgt:
                    for x in ast.walk(t):
                        if isinstance(x, ast.Name) and isinstance(x.ctx, ast.Store) and x.id not in names:
                            names.add(x.id)
                            changed = True
    return names


def _find_handler(run, f: Func, tags: str):
    p = run.project
    cfg = cfg_of(f, p)
    run.use_cfg(cfg)
    ix = Index(cfg)
    exparam = param_at(f, 1, 'the raised exception')
    loops = [n for n in walk_self(f.node) if isinstance(n, (ast.For, ast.AsyncFor))
             and any((isinstance(x, ast.Attribute) and x.attr in ('__mro__', 'mro')) for x in walk_self(n.iter))]
    lp = single(loops, 'loop over the exception MRO', f.qual)
    rev, trimmed = _mro_iter(lp.iter, exparam, f.qual)
    run.check(not rev, '%s: handler search walks type(ex).__mro__ from most to least specific' % tags, f, lp.iter,
              runtime_witness='raise a subclass whose base also has a handler: the base handler is chosen')
    run.check(not trimmed, '%s: handler search starts at the exception\'s own class' % tags, f, lp.iter)
    if not isinstance(lp.target, ast.Name):
        raise UnknownIdiom('%s: loop target %s' % (f.qual, short(lp.target)))
    var = lp.target.id
    # lookup in the registry keyed by the loop variable; the registry and its
    # bound `get` may be held in a local all of whose bindings are that value
    # (`get_handler = self._error_handlers.get` hoisted out of the loop: the
    # registry is only ever mutated in place - ownership clause of R2 - so
    # the bound method sees every registration)
    reg_al = _aliases(f, lambda e: is_self_attr(e, '_error_handlers'))

    def is_registry(e):
        return is_self_attr(e, '_error_handlers') or (isinstance(e, ast.Name) and e.id in reg_al)

    def is_get_attr(e):
        return isinstance(e, ast.Attribute) and e.attr == 'get' and is_registry(e.value)

    get_al = _aliases(f, is_get_attr)

    def is_get(e):
        return is_get_attr(e) or (isinstance(e, ast.Name) and e.id in get_al)

    look = None
    for n in walk_self(lp):
        if isinstance(n, (ast.Assign, ast.AnnAssign)):
            v = n.value
            tg = n.targets[0] if isinstance(n, ast.Assign) and len(n.targets) == 1 else (n.target if isinstance(n, ast.AnnAssign) else None)
            if (isinstance(v, ast.Call) and is_get(v.func) and v.args and is_name(v.args[0], var) and not v.keywords
                    and (len(v.args) == 1 or (len(v.args) == 2 and isinstance(v.args[1], ast.Constant) and v.args[1].value is None))
                    and isinstance(tg, ast.Name)):
                look = (n, tg.id)
    if look is None:
        if any(is_self_attr(x, '_error_handlers') for x in walk_self(f.node)):
            raise UnknownIdiom('%s: registry lookup idiom in the MRO loop' % f.qual)
        raise AnchorError('%s: no lookup of self._error_handlers in the MRO loop' % f.qual)
    stmt, h = look
    lnode = single(cfg.nodes_for(stmt), 'registry lookup node', f.qual)
    iter_node = single([i for i in cfg.nodes_for(lp) if cfg.node(i).kind == 'iter'], 'MRO loop header', f.qual)
    ret_h = [n.id for n in cfg.live_nodes() if n.kind == 'stmt' and isinstance(n.ast, ast.Return) and is_name(n.ast.value, h)]
    is_h = lambda e: is_name(e, h)  # noqa: E731
    body = nodes_within(cfg, lp.body)
    for n in cfg.live_nodes():
        if n.id in body and n.kind == 'test' and undecided_subject_test(n.ast, is_h) is not None:
            raise UnknownIdiom('%s: test of the looked-up handler %s' % (f.qual, short(n.ast)))
    starts = [y for (y, l) in cfg.succ[lnode] if l != 'exc']
    found = pruned(cfg, assume_none(is_h, False), flow.no_exc)
    path = flow.find_path(cfg, starts, [iter_node, cfg.exit], avoid_nodes=ret_h, edge_filter=found)
    run.check(path is None and bool(ret_h), '%s: the search returns the handler of the first registered class in MRO order' % tags, f,
              stmt, witness=flow.describe_path(cfg, path) if path else None,
              runtime_witness='handlers for a class and its base: the base (or no) handler is returned')
    missing = pruned(cfg, assume_none(is_h, True), flow.no_exc)
    path = flow.find_path(cfg, starts, [cfg.exit], avoid_nodes=[iter_node], edge_filter=missing)
    run.check(path is None, '%s: an unregistered class does not end the search' % tags, f, 'unregistered: ' + short(stmt),
              where=f.loc(stmt), witness=flow.describe_path(cfg, path) if path else None)


# ---------------------------------------------------------------------------
# R2 (second reader) selection decided by evaluating the search over a finite model domain
# ---------------------------------------------------------------------------

class _Unreadable(Exception):
    """The model evaluation met a construct it has no semantics for (-> UnknownIdiom, never a verdict)."""


class _ModelRaise(Exception):
    def __init__(self, cls, node):
        Exception.__init__(self, cls.__name__)
        self.cls, self.node = cls, node


class _Return(Exception):
    def __init__(self, value, node):
        Exception.__init__(self)
        self.value, self.node = value, node


class _Break(Exception):
    pass


class _Continue(Exception):
    pass


# exceptions the evaluated builtins raise as part of their documented behaviour on model values
_MODEL_EXC = (LookupError, ValueError, StopIteration)
_KEYS_VIEW = type({}.keys())


class _MSet:
    """A set of model classes whose iteration order belongs to the evaluation: CPython orders a set of classes by their
    id-hash, so every order is a possible run."""

    def __init__(self, items, rank):
        self.items = list(dict.fromkeys(items))
        self.rank = rank

    def _new(self, items):
        return _MSet(items, self.rank)

    def __iter__(self):
        return iter(sorted(self.items, key=self.rank))

    def __contains__(self, x):
        return x in self.items

    def __len__(self):
        return len(self.items)

    def __bool__(self):
        return bool(self.items)

    def __eq__(self, other):
        return isinstance(other, _MSet) and set(self.items) == set(other.items)

    __hash__ = None

    @staticmethod
    def _elems(x, strict):
        if isinstance(x, (_MSet, set, frozenset, _KEYS_VIEW)):
            return list(x)
        if strict:
            raise _Unreadable('set operator applied to a %s' % type(x).__name__)
        return list(x)

    def __and__(self, o):
        o = self._elems(o, True)
        return self._new([x for x in self.items if x in o])

    __rand__ = __and__

    def __or__(self, o):
        return self._new(self.items + self._elems(o, True))

    __ror__ = __or__

    def __sub__(self, o):
        o = self._elems(o, True)
        return self._new([x for x in self.items if x not in o])

    def intersection(self, *others):
        out = self.items
        for o in others:
            o = self._elems(o, False)
            out = [x for x in out if x in o]
        return self._new(out)

    def union(self, *others):
        out = list(self.items)
        for o in others:
            out += self._elems(o, False)
        return self._new(out)

    def difference(self, *others):
        out = self.items
        for o in others:
            o = self._elems(o, False)
            out = [x for x in out if x not in o]
        return self._new(out)

    def issubset(self, o):
        o = self._elems(o, False)
        return all(x in o for x in self.items)

    def pop(self):
        if not self.items:
            raise KeyError('pop from an empty set')
        x = next(iter(self))
        self.items.remove(x)
        return x


class _SelectionEval:
    """Evaluates the body of the handler search on model values: real (analyser-made) exception classes built from
    builtins, a registry dict {class: marker}, an instance of the raised class.  Only side-effect-free constructs with
    plain Python semantics are read (see ev/ex); anything else is _Unreadable."""

    import functools as _ft
    import operator as _op

    CALLABLES = {
        'builtins.type': type, 'builtins.len': len, 'builtins.max': max, 'builtins.min': min, 'builtins.sorted': sorted,
        'builtins.next': next, 'builtins.iter': iter, 'builtins.reversed': reversed, 'builtins.tuple': tuple, 'builtins.list': list,
        'builtins.issubclass': issubclass, 'builtins.isinstance': isinstance, 'builtins.enumerate': enumerate, 'builtins.any': any,
        'builtins.all': all, 'builtins.filter': filter, 'builtins.map': map, 'builtins.sum': sum, 'builtins.zip': zip,
        'builtins.bool': bool, 'builtins.range': range, 'builtins.int': int,
        'functools.partial': _ft.partial, 'functools.reduce': _ft.reduce,
        'operator.itemgetter': _op.itemgetter, 'operator.contains': _op.contains, 'operator.getitem': _op.getitem,
        'builtins.Exception': Exception, 'builtins.BaseException': BaseException, 'builtins.object': object,
        'builtins.KeyError': KeyError, 'builtins.LookupError': LookupError, 'builtins.IndexError': IndexError,
        'builtins.ValueError': ValueError, 'builtins.StopIteration': StopIteration, 'builtins.TypeError': TypeError,
    }
    ATTRS = (
        (type, ('__mro__', 'mro', '__bases__', '__name__', '__qualname__', '__base__')),
        (BaseException, ('__class__',)),
        (tuple, ('index', 'count')),
        (list, ('index', 'count')),
        (dict, ('get', 'keys', 'values', 'items', '__getitem__', '__contains__')),
        (_KEYS_VIEW, ('isdisjoint',)),
        (_MSet, ('intersection', 'union', 'difference', 'issubset', 'pop')),
    )
    BINOPS = {ast.Add: _op.add, ast.Sub: _op.sub, ast.Mult: _op.mul, ast.FloorDiv: _op.floordiv, ast.Mod: _op.mod}
    CMPOPS = {ast.Eq: _op.eq, ast.NotEq: _op.ne, ast.Lt: _op.lt, ast.LtE: _op.le, ast.Gt: _op.gt, ast.GtE: _op.ge,
              ast.Is: _op.is_, ast.IsNot: _op.is_not}

    def __init__(self, p, f: Func, exparam: str, registry: dict, ex, rank):
        self.p, self.f, self.exparam, self.registry, self.exc, self.rank = p, f, exparam, registry, ex, rank
        self.steps = 0

    # -- plumbing
    def native(self, node, fn, *a, **k):
        """A builtin applied to model values: its documented exceptions are outcomes of the evaluated function, anything
        else means the model (not the code) is at fault."""
        try:
            return fn(*a, **k)
        except (_Unreadable, _ModelRaise, _Return, _Break, _Continue):
            raise
        except _MODEL_EXC as e:
            raise _ModelRaise(type(e), node)
        except Exception as e:  # noqa: BLE001
            raise _Unreadable('%s: %s: %s' % (short(node), type(e).__name__, e))

    def tick(self, node):
        self.steps += 1
        if self.steps > 20000:
            raise _Unreadable('evaluation does not terminate near %s' % short(node))

    def run(self):
        env = {'self': self, self.exparam: self.exc}
        extra = [a for a in self.f.params() if a not in env]
        if extra:
            raise _Unreadable('extra parameters %s' % ', '.join(extra))
        try:
            self.block(self.f.node.body, env)
        except _Return as r:
            return ('ret', r.value, r.node)
        except _ModelRaise as r:
            return ('raise', r.cls, r.node)
        except (_Break, _Continue):
            raise _Unreadable('break/continue outside a loop')
        return ('ret', None, None)

    # -- statements
    def block(self, stmts, env):
        for s in stmts:
            self.ex(s, env)

    def bind(self, t, v, env, node):
        if isinstance(t, ast.Name):
            env[t.id] = v
        elif isinstance(t, (ast.Tuple, ast.List)) and not any(isinstance(x, ast.Starred) for x in t.elts):
            vs = self.native(node, list, v)
            if len(vs) != len(t.elts):
                raise _ModelRaise(ValueError, node)
            for x, y in zip(t.elts, vs):
                self.bind(x, y, env, node)
        else:
            raise _Unreadable('store into %s (the search must not write anything but locals)' % short(t))

    def ex(self, s, env):
        self.tick(s)
        if isinstance(s, ast.Expr):
            if not isinstance(s.value, ast.Constant):
                self.ev(s.value, env)
        elif isinstance(s, ast.Pass):
            pass
        elif isinstance(s, ast.Assign):
            v = self.ev(s.value, env)
            for t in s.targets:
                self.bind(t, v, env, s)
        elif isinstance(s, ast.AnnAssign):
            if s.value is not None:
                self.bind(s.target, self.ev(s.value, env), env, s)
        elif isinstance(s, ast.AugAssign) and isinstance(s.target, ast.Name):
            cur = self.ev(ast.Name(id=s.target.id, ctx=ast.Load()), env)
            env[s.target.id] = self.binop(s, s.op, cur, self.ev(s.value, env))
        elif isinstance(s, ast.Return):
            raise _Return(self.ev(s.value, env) if s.value is not None else None, s)
        elif isinstance(s, ast.If):
            self.block(s.body if self.truth(self.ev(s.test, env), s.test) else s.orelse, env)
        elif isinstance(s, ast.For):
            broke = False
            for v in self.iterate(self.ev(s.iter, env), s.iter):
                self.tick(s)
                self.bind(s.target, v, env, s)
                try:
                    self.block(s.body, env)
                except _Break:
                    broke = True
                    break
                except _Continue:
                    continue
            if not broke:
                self.block(s.orelse, env)
        elif isinstance(s, ast.While):
            broke = False
            while self.truth(self.ev(s.test, env), s.test):
                self.tick(s)
                try:
                    self.block(s.body, env)
                except _Break:
                    broke = True
                    break
                except _Continue:
                    continue
            if not broke:
                self.block(s.orelse, env)
        elif isinstance(s, ast.Break):
            raise _Break()
        elif isinstance(s, ast.Continue):
            raise _Continue()
        elif isinstance(s, ast.Try) and not s.finalbody:
            try:
                self.block(s.body, env)
            except _ModelRaise as r:
                for h in s.handlers:
                    if h.type is None:
                        caught = True
                    else:
                        types = h.type.elts if isinstance(h.type, ast.Tuple) else [h.type]
                        cls = [self.ev(t, env) for t in types]
                        if not all(isinstance(c, type) and issubclass(c, BaseException) for c in cls):
                            raise _Unreadable('except clause %s' % short(h.type))
                        caught = issubclass(r.cls, tuple(cls))
                    if caught:
                        if h.name:
                            raise _Unreadable('the caught exception is bound to a name in %s' % short(h))
                        self.block(h.body, env)
                        break
                else:
                    raise
            else:
                self.block(s.orelse, env)
        elif isinstance(s, ast.Raise) and s.exc is not None and s.cause is None:
            e = s.exc.func if isinstance(s.exc, ast.Call) else s.exc
            c = self.ev(e, env)
            if not (isinstance(c, type) and issubclass(c, BaseException)):
                raise _Unreadable('raise of %s' % short(s.exc))
            raise _ModelRaise(c, s)
        else:
            raise _Unreadable('statement %s' % short(s))

    # -- expressions
    def truth(self, v, node):
        return self.native(node, bool, v)

    def iterate(self, v, node):
        it = self.native(node, iter, v)
        while True:
            try:
                yield next(it)
            except StopIteration:
                return
            except _MODEL_EXC as e:
                raise _ModelRaise(type(e), node)

    def mset(self, items=()):
        return _MSet(list(items), self.rank)

    def binop(self, node, op, a, b):
        setlike = (_MSet, set, frozenset, _KEYS_VIEW)
        if isinstance(op, (ast.BitAnd, ast.BitOr, ast.Sub, ast.BitXor)) and (isinstance(a, setlike) or isinstance(b, setlike)):
            view = isinstance(a, _KEYS_VIEW) or isinstance(b, _KEYS_VIEW)
            if not view and not (isinstance(a, setlike) and isinstance(b, setlike)):
                raise _Unreadable('%s: a set operator with a non-set operand raises TypeError' % short(node))
            la, lb = list(a), list(b)
            if isinstance(op, ast.BitAnd):
                return self.mset(x for x in la if x in lb)
            if isinstance(op, ast.BitOr):
                return self.mset(la + lb)
            if isinstance(op, ast.Sub):
                return self.mset(x for x in la if x not in lb)
            return self.mset([x for x in la if x not in lb] + [x for x in lb if x not in la])
        fn = self.BINOPS.get(type(op))
        if fn is None or not all(isinstance(x, (int, tuple, list)) for x in (a, b)):
            raise _Unreadable('operator in %s' % short(node))
        return self.native(node, fn, a, b)

    def comprehension(self, node, elt, env):
        gens = node.generators
        if any(g.is_async for g in gens):
            raise _Unreadable('async comprehension')

        def rec(i, e):
            if i == len(gens):
                yield elt(e)
                return
            g = gens[i]
            for v in self.iterate(self.ev(g.iter, e), g.iter):
                self.tick(node)
                e2 = dict(e)
                self.bind(g.target, v, e2, node)
                if all(self.truth(self.ev(c, e2), c) for c in g.ifs):
                    yield from rec(i + 1, e2)

        return rec(0, dict(env))

    def ev(self, e, env):
        self.tick(e)
        if isinstance(e, ast.Constant):
            return e.value
        if isinstance(e, ast.Name):
            if e.id in env:
                return env[e.id]
            return self.global_name(e)
        if isinstance(e, ast.Attribute):
            if is_self_attr(e, '_error_handlers'):
                return self.registry
            root = e
            while isinstance(root, ast.Attribute):
                root = root.value
            if isinstance(root, ast.Name) and root.id not in env:
                return self.global_name(e)
            v = self.ev(e.value, env)
            if v is self:
                raise _Unreadable('read of self.%s' % e.attr)
            for ty, names in self.ATTRS:
                if isinstance(v, ty) and e.attr in names:
                    return self.native(e, getattr, v, e.attr)
            raise _Unreadable('attribute %s of a %s' % (e.attr, type(v).__name__))
        if isinstance(e, ast.Call):
            fn = self.ev(e.func, env)
            if any(isinstance(a, ast.Starred) for a in e.args) or any(k.arg is None for k in e.keywords):
                raise _Unreadable('star-arguments in %s' % short(e))
            args = [self.ev(a, env) for a in e.args]
            kw = {k.arg: self.ev(k.value, env) for k in e.keywords}
            if not callable(fn) or fn is self:
                raise _Unreadable('call of %s' % short(e.func))
            return self.native(e, fn, *args, **kw)
        if isinstance(e, ast.Subscript):
            v = self.ev(e.value, env)
            if isinstance(e.slice, ast.Slice):
                s = e.slice
                k = slice(*[None if x is None else self.ev(x, env) for x in (s.lower, s.upper, s.step)])
            else:
                k = self.ev(e.slice, env)
            if not isinstance(v, (tuple, list, dict)):
                raise _Unreadable('subscript of a %s' % type(v).__name__)
            return self.native(e, self._op.getitem, v, k)
        if isinstance(e, ast.Compare):
            left = self.ev(e.left, env)
            for op, r in zip(e.ops, e.comparators):
                right = self.ev(r, env)
                if isinstance(op, (ast.In, ast.NotIn)):
                    if not isinstance(right, (tuple, list, dict, _MSet, _KEYS_VIEW)):
                        raise _Unreadable('membership in a %s' % type(right).__name__)
                    res = self.native(e, lambda a, b: a in b, left, right) != isinstance(op, ast.NotIn)
                else:
                    if isinstance(op, (ast.Lt, ast.LtE, ast.Gt, ast.GtE)) and not all(isinstance(x, int) for x in (left, right)):
                        raise _Unreadable('ordering comparison %s' % short(e))
                    res = self.native(e, self.CMPOPS[type(op)], left, right)
                if not res:
                    return False
                left = right
            return True
        if isinstance(e, ast.BoolOp):
            v = None
            for x in e.values:
                v = self.ev(x, env)
                t = self.truth(v, x)
                if t != isinstance(e.op, ast.And):
                    return v
            return v
        if isinstance(e, ast.UnaryOp):
            v = self.ev(e.operand, env)
            if isinstance(e.op, ast.Not):
                return not self.truth(v, e.operand)
            if isinstance(e.op, ast.USub) and isinstance(v, int):
                return -v
            raise _Unreadable('operator in %s' % short(e))
        if isinstance(e, ast.BinOp):
            return self.binop(e, e.op, self.ev(e.left, env), self.ev(e.right, env))
        if isinstance(e, ast.IfExp):
            return self.ev(e.body if self.truth(self.ev(e.test, env), e.test) else e.orelse, env)
        if isinstance(e, ast.NamedExpr) and isinstance(e.target, ast.Name):
            env[e.target.id] = v = self.ev(e.value, env)
            return v
        if isinstance(e, ast.Lambda):
            a = e.args
            if a.vararg or a.kwarg or a.kwonlyargs or a.defaults or a.posonlyargs:
                raise _Unreadable('lambda signature %s' % short(e))
            names = [x.arg for x in a.args]

            def fn(*vals, _names=names, _body=e.body, _env=env):
                if len(vals) != len(_names):
                    raise _Unreadable('lambda called with %d arguments' % len(vals))
                e2 = dict(_env)
                e2.update(zip(_names, vals))
                return self.ev(_body, e2)

            return fn
        if isinstance(e, ast.GeneratorExp):
            return self.comprehension(e, lambda e2: self.ev(e.elt, e2), env)
        if isinstance(e, ast.ListComp):
            return list(self.comprehension(e, lambda e2: self.ev(e.elt, e2), env))
        if isinstance(e, ast.SetComp):
            return self.mset(self.comprehension(e, lambda e2: self.ev(e.elt, e2), env))
        if isinstance(e, ast.DictComp):
            return dict(self.comprehension(e, lambda e2: (self.ev(e.key, e2), self.ev(e.value, e2)), env))
        if isinstance(e, (ast.Tuple, ast.List)) and not any(isinstance(x, ast.Starred) for x in e.elts):
            vs = [self.ev(x, env) for x in e.elts]
            return tuple(vs) if isinstance(e, ast.Tuple) else vs
        if isinstance(e, ast.Set) and not any(isinstance(x, ast.Starred) for x in e.elts):
            return self.mset(self.ev(x, env) for x in e.elts)
        raise _Unreadable('expression %s' % short(e))

    def global_name(self, e):
        q = self.p.resolve_expr(self.f.module, e, self.f)
        if q in ('builtins.set', 'builtins.frozenset'):
            return lambda items=(): self.mset(_MSet._elems(items, False))
        fn = self.CALLABLES.get(q)
        if fn is None:
            raise _Unreadable('name %s (%s) has no model value' % (short(e), q))
        return fn


def _selection_domain():
    """Model hierarchies (built from builtins by the analyser), each: (text, raised classes, registrable classes)."""
    def mk(name, *bases):
        return type(name, bases, {})

    A = mk('A', Exception)
    B = mk('B', Exception)
    C = mk('C', B)
    D = mk('D', A, C)
    U = mk('U', C)
    P = mk('P', Exception)
    Q = mk('Q', Exception)
    R = mk('R', P, Q)
    L1 = mk('L1', Exception)
    L2 = mk('L2', L1)
    L3 = mk('L3', L2)
    return [
        ('class A(Exception); class B(Exception); class C(B); class D(A, C); class U(C)', [D, C, A], [D, A, C, B, U]),
        ('class P(Exception); class Q(Exception); class R(P, Q)', [R, Q], [R, P, Q]),
        ('class L1(Exception); class L2(L1); class L3(L2)', [L3, L2], [L3, L2, L1]),
    ]


def _find_handler_model(run, f: Func, tags: str):
    """R2, read semantically: for every model hierarchy (multiple inheritance with a shallow base before a deeper one,
    equal-depth bases, a plain chain), every set of registered classes (the default `Exception` handler always among
    them, as App.__init__ guarantees), both registration orders and both iteration orders of any set the search builds,
    the search returns the handler of the FIRST class along type(ex).__mro__ that is registered.
    Witness: class Retryable(Exception); class DbError(StorageError); class Timeout(Retryable, DbError), handlers for
    Retryable and DbError, raise Timeout(): a search keyed by MRO length / depth / set order picks DbError's handler."""
    import itertools
    p = run.project
    exparam = param_at(f, 1, 'the raised exception')
    n_cases = 0
    cex = None
    unstable = None
    for text, raised, cands in _selection_domain():
        index = {c: i for i, c in enumerate(cands + [Exception])}
        policies = [lambda c, k=k: k * index.get(c, 99) if isinstance(c, type) else 0 for k in (1, -1)]
        subsets = [s for n in range(len(cands) + 1) for s in itertools.combinations(cands, n)]
        for sub in subsets:
            for raise_cls in raised:
                want_cls = next(c for c in raise_cls.__mro__ if c in sub or c is Exception)
                seen = set()
                for order in (list(sub), list(reversed(sub))):
                    registry = {c: 'handler registered for %s' % c.__name__ for c in [Exception] + order}
                    for rank in policies:
                        n_cases += 1
                        ev = _SelectionEval(p, f, exparam, dict(registry), raise_cls(), rank)
                        try:
                            kind, val, node = ev.run()
                        except _Unreadable as e:
                            raise UnknownIdiom('%s: handler search is not readable: %s' % (f.qual, e))
                        except (AnchorError, UnknownIdiom):
                            raise
                        except Exception as e:  # noqa: BLE001 - the model, not the code, is at fault
                            raise UnknownIdiom('%s: handler search could not be evaluated on the model: %s: %s' % (f.qual, type(e).__name__, e))
                        got = val if kind == 'ret' else 'raises %s' % val.__name__
                        seen.add(str(got))
                        if got != registry[want_cls] and cex is None:
                            cex = (text, sub, raise_cls, want_cls, got, node)
                if len(seen) > 1 and unstable is None:
                    unstable = (text, sub, raise_cls, sorted(seen))
        if cex is not None:
            break
    if cex is None:
        run.ok('%s: the search returns the handler of the first registered class along type(ex).__mro__ '
               '(evaluated on %d model cases: multiple inheritance, equal-depth bases, registration and set orders)' % (tags, n_cases),
               f.loc(), '%s: first registered class in MRO order' % f.name)
        return
    text, sub, raise_cls, want_cls, got, node = cex
    wit = ['model: %s' % text,
           'handlers registered for: %s' % ', '.join(c.__name__ for c in (Exception,) + tuple(sub)),
           'raise %s()  (MRO %s)' % (raise_cls.__name__, ' > '.join(c.__name__ for c in raise_cls.__mro__[:-2])),
           'expected: handler registered for %s' % want_cls.__name__, 'selected: %s' % (got,)]
    if unstable is not None:
        wit.append('the answer depends on set / registration order (handlers for %s, raise %s()): %s' % (
            ', '.join(c.__name__ for c in unstable[1]), unstable[2].__name__, ' | '.join(unstable[3])))
    run.fail('%s: the search returns the handler of the first registered class along type(ex).__mro__ (not the class with the '
             'longest lineage / an arbitrary member of a set)' % tags, f, node if node is not None else '%s: falls off the end' % f.name,
             witness=wit,
             runtime_witness='%s; handlers for %s; raise %s(): %s instead of the handler of %s' % (
                 text, ', '.join(c.__name__ for c in sub), raise_cls.__name__, got, want_cls.__name__))


def _find_handler_any(run, f: Func, tags: str):
    """The loop reader first (it names the offending construct); a search written any other way (next() over a
    generator, min() keyed by mro.index, set intersection + max(), ...) is evaluated on the model domain."""
    loops = [n for n in walk_self(f.node) if isinstance(n, (ast.For, ast.AsyncFor))
             and any((isinstance(x, ast.Attribute) and x.attr in ('__mro__', 'mro')) for x in walk_self(n.iter))]
    if len(loops) == 1:
        try:
            return _find_handler(run, f, tags)
        except UnknownIdiom as first:
            try:
                return _find_handler_model(run, f, tags)
            except UnknownIdiom as second:
                raise UnknownIdiom('%s; and %s' % (first, second))
    return _find_handler_model(run, f, tags)


def _registration(run, f: Func, tag: str):
    p = run.project
    cfg = cfg_of(f, p)
    run.use_cfg(cfg)
    ix = Index(cfg)
    exc_param = param_at(f, 1, 'exception type(s)')
    h_param = param_at(f, 2, 'handler')
    d_exc = _derived(f, exc_param)
    d_h = _derived(f, h_param)
    stores = []
    reg_al = _aliases(f, lambda e: is_self_attr(e, '_error_handlers'))       # handlers = self._error_handlers: the same dict
    is_reg = lambda e: is_self_attr(e, '_error_handlers') or (isinstance(e, ast.Name) and e.id in reg_al)  # noqa: E731
    for n in walk_self(f.node):
        if isinstance(n, ast.Assign):
            for t in n.targets:
                if isinstance(t, ast.Subscript) and is_reg(t.value):
                    stores.append((n, t))
    soft = [c for c in walk_self(f.node) if isinstance(c, ast.Call) and isinstance(c.func, ast.Attribute)
            and is_reg(c.func.value)]
    for c in soft:
        if c.func.attr == 'setdefault':
            run.fail('%s: registration keeps an earlier handler (the latest registration must win)' % tag, f, c,
                     runtime_witness='register two handlers for one class: the first one is still invoked')
        elif c.func.attr in ('update', '__setitem__'):
            raise UnknownIdiom('%s: registry written through %s' % (f.qual, short(c)))
    if not stores and not any(c.func.attr == 'setdefault' for c in soft):
        raise AnchorError('%s: no store into self._error_handlers' % f.qual)
    mentions_registry = is_reg
    for st, tgt in stores:
        nid = single(cfg.nodes_for(st), 'registry store node', f.qual)
        guards = [t for (t, _tr) in ix.facts(nid) if mentions(t, mentions_registry)]
        run.check(not guards, '%s: the keyed store is not conditional on the registry content (latest registration wins)' % tag,
                  f, st, witness=[short(g) for g in guards],
                  runtime_witness='register two handlers for one class: the first one is still invoked')
        key_ok = any(isinstance(x, ast.Name) and x.id in d_exc for x in ast.walk(tgt.slice))
        val_ok = any(isinstance(x, ast.Name) and x.id in d_h for x in ast.walk(st.value))
        run.check(key_ok and val_ok, '%s: the store maps the given exception class to the given handler' % tag, f,
                  'store ' + short(st), where=f.loc(st))


def _composes(run, f: Func, target: str, tag: str, what: str):
    """Method f(self, req, resp, exc, ...) calls self.<target>(req, resp, exc)
    on every normal path on which resp is a response object."""
    p = run.project
    cfg = cfg_of(f, p)
    run.use_cfg(cfg)
    ix = Index(cfg)
    reqn, respn, excn = (param_at(f, i, w) for i, w in ((1, 'req'), (2, 'resp'), (3, 'exception')))
    calls = [c for c in walk_self(f.node) if isinstance(c, ast.Call) and dotted(c.func) == 'self.' + target
             and len(c.args) >= 3 and is_name(c.args[0], reqn) and is_name(c.args[1], respn) and is_name(c.args[2], excn)]
    nodes = _call_nodes(ix, calls)
    path = _all_paths_through(cfg, nodes, pruned(cfg, _truthy(respn), flow.no_exc))
    run.check(bool(nodes) and path is None, '%s: %s' % (tag, what), f, '%s -> self.%s' % (f.name, target), where=f.loc(),
              witness=flow.describe_path(cfg, path) if path else None)
    return bool(nodes) and path is None


def r2_selection(run):
    p = run.project
    _anchors(run.project)
    # ownership: the registry is written only by the registration API (and
    # created in __init__); a lookup that writes back (memoisation of a
    # resolved ancestor handler, say) pins the answer for that concrete class
    # and shadows any handler registered later for a nearer class
    MUT = ('setdefault', 'update', 'pop', 'popitem', 'clear', '__setitem__', '__delitem__')
    n_writers = 0
    for f in list(p.all_functions()):
        owner = f.name in ('add_error_handler', '__init__')
        for n in walk_no_nested(f.node):
            w = None
            if isinstance(n, (ast.Assign, ast.AugAssign, ast.AnnAssign, ast.Delete)):
                tgts = n.targets if isinstance(n, (ast.Assign, ast.Delete)) else [n.target]
                for t in tgts:
                    for x in ast.walk(t):
                        if isinstance(x, ast.Attribute) and x.attr == '_error_handlers' and not isinstance(x.ctx, ast.Load):
                            w = n
                        if isinstance(x, ast.Subscript) and isinstance(x.value, ast.Attribute) and x.value.attr == '_error_handlers' \
                                and not isinstance(x.ctx, ast.Load):
                            w = n
            elif isinstance(n, ast.Call) and isinstance(n.func, ast.Attribute) and n.func.attr in MUT \
                    and isinstance(n.func.value, ast.Attribute) and n.func.value.attr == '_error_handlers':
                w = n
            if w is None:
                continue
            n_writers += 1
            run.check(owner, 'the error-handler registry is written only by add_error_handler/__init__ '
                             '(a later registration for a nearer class must take effect)', f, w,
                      runtime_witness='raise Leaf once (resolved via an ancestor handler), then add_error_handler(Mid, h), raise Leaf again: h is not used')
    if n_writers < 2:
        raise AnchorError('writers of _error_handlers not found (%d)' % n_writers)
    # the lookup itself keeps no state at all: remembering, per raised type,
    # which class (or handler) matched makes the answer depend on the history of
    # raises, so a handler registered later for a nearer class is never chosen
    for app, _q, tag in APPS:
        lf = effective_method(p, app, '_find_error_handler')
        stores = []
        for n in walk_no_nested(lf.node):
            if isinstance(n, (ast.Assign, ast.AugAssign, ast.AnnAssign)):
                tg = n.targets if isinstance(n, ast.Assign) else [n.target]
                for t in tg:
                    for x in ast.walk(t):
                        if isinstance(x, ast.Attribute) and isinstance(x.value, ast.Name) and x.value.id == 'self' and not isinstance(x.ctx, ast.Load):
                            stores.append(n)
                        if isinstance(x, ast.Subscript) and isinstance(x.value, ast.Attribute) and isinstance(x.value.value, ast.Name) \
                                and x.value.value.id == 'self' and not isinstance(x.ctx, ast.Load):
                            stores.append(n)
            elif isinstance(n, ast.Call) and isinstance(n.func, ast.Attribute) and n.func.attr in MUT + ('append', 'add', 'setdefault') \
                    and isinstance(n.func.value, ast.Attribute) and isinstance(n.func.value.value, ast.Name) and n.func.value.value.id == 'self':
                stores.append(n)
        run.check(not stores, '%s: the handler lookup stores nothing on the app (selection depends only on the registry and the exception type)' % tag,
                  lf, stores[0] if stores else '_find_error_handler: no self stores', where=lf.loc(stores[0] if stores else None),
                  runtime_witness='raise Leaf (remembered as matched by Exception), add_error_handler(Mid, h), raise Leaf: h is not used')
    seen = {}
    for app, _q, tag in APPS:
        f = effective_method(p, app, '_find_error_handler')
        seen.setdefault(f.qual, (f, []))[1].append(tag)
    for f, tags in seen.values():
        _find_handler_any(run, f, '/'.join(tags))
    for app, _q, tag in APPS:
        f = p.func(app + '.add_error_handler')
        _registration(run, f, tag)
    # default handlers
    init = inline_view(p, p.func(WSGI_APP + '.__init__'), _INIT_KEEP)
    cfg = cfg_of(init, p)
    run.use_cfg(cfg)
    ix = Index(cfg)
    regs: Dict[str, Tuple[ast.Call, str]] = {}
    is_add = method_of(init, {'self'}, 'add_error_handler')
    for c in walk_self(init.node):
        if isinstance(c, ast.Call) and is_add(c.func) and len(c.args) >= 2:
            cq = p.resolve_expr(init.module, c.args[0], init)
            hm = c.args[1]
            if cq and isinstance(hm, ast.Attribute) and is_name(hm.value, 'self'):
                regs[cq] = (c, hm.attr)
    want = (('builtins.Exception', None, 'any other Exception'), (HTTP_ERROR, '_compose_error_response', 'HTTPError'),
            (HTTP_STATUS, '_compose_status_response', 'HTTPStatus'))
    if not regs:
        raise AnchorError('%s: no default error handler registration found' % init.qual)
    for cq, target, label in want:
        if cq not in regs:
            run.fail('App.__init__ registers a default handler for %s' % label, init, 'default handler for ' + label,
                     runtime_witness='raise %s from a responder: it propagates to the server' % label)
            continue
        c, meth = regs[cq]
        path = _all_paths_through(cfg, ix.nodes_of(c))
        run.check(path is None, 'App.__init__ registers the default handler for %s on every path' % label, init, c)
        if target is not None:
            for app, _q, tag in APPS:
                m = effective_method(p, app, meth)
                _composes(run, m, target, tag, 'the default %s handler renders the raised instance through %s' % (label, target))
    # the ASGI constructor runs the base one
    ainit = p.func(ASGI_APP + '.__init__')
    acfg = cfg_of(ainit, p)
    ax = Index(acfg)
    sup = [c for c in walk_self(ainit.node) if isinstance(c, ast.Call) and getattr(p.callee(ainit, c), 'qual', None) == init.qual]
    path = _all_paths_through(acfg, _call_nodes(ax, sup))
    run.check(bool(sup) and path is None, 'ASGI App.__init__ runs the base constructor (default handlers) on every path', ainit,
              sup[0] if sup else 'super().__init__')


# ---------------------------------------------------------------------------
# R3 handle discipline
# ---------------------------------------------------------------------------

class _Handle:
    def __init__(self, run, app: str, tag: str):
        p = run.project
        self.p = p
        self.tag = tag
        self.app = app
        f = self.f = inline_view(p, effective_method(p, app, '_handle_exception'))
        cfg = self.cfg = cfg_of(f, p)
        run.use_cfg(cfg)
        self.ix = Index(cfg)
        self.req, self.resp, self.ex, self.params = (param_at(f, i, w) for i, w in (
            (1, 'req'), (2, 'resp'), (3, 'exception'), (4, 'params')))
        # H = result of self._find_error_handler(ex)
        self.h = None
        self.resp_names = same_names(f, self.resp)
        is_find = method_of(f, {'self'}, '_find_error_handler')
        ex_names = same_names(f, self.ex)
        for n in walk_self(f.node):
            if isinstance(n, (ast.Assign, ast.AnnAssign)) and n.value is not None:
                v = strip_await(n.value)
                tg = n.targets[0] if isinstance(n, ast.Assign) and len(n.targets) == 1 else getattr(n, 'target', None)
                if isinstance(v, ast.Call) and is_find(v.func) and isinstance(tg, ast.Name):
                    if not (len(v.args) == 1 and isinstance(v.args[0], ast.Name) and v.args[0].id in ex_names):
                        raise UnknownIdiom('%s: %s is not a search for the raised exception' % (f.qual, short(v)))
                    self.h = tg.id
                    self.find_stmt = n
        if self.h is None:
            raise AnchorError('%s: result of self._find_error_handler(...) is not bound to a local' % f.qual)
        calls = [c for c in walk_self(f.node) if isinstance(c, ast.Call) and is_name(c.func, self.h)]
        if not calls:
            raise AnchorError('%s: the selected handler is never called' % f.qual)
        self.calls = calls
        self.call_nodes = _call_nodes(self.ix, calls)
        self.is_h = lambda e: is_name(e, self.h)
        self.http = pruned(cfg, _truthy(self.resp))
        self.http_noexc = pruned(cfg, _truthy(self.resp), flow.no_exc)

    def arm_kind(self, h: ast.ExceptHandler) -> Optional[str]:
        q = handler_class_quals(self.p, self.f, h)
        if q is None:
            return None
        if q == [HTTP_STATUS]:
            return 'STATUS'
        if q == [HTTP_ERROR]:
            return 'ERROR'
        return None

    def labels(self, n):
        out = []
        if n.kind == 'handler':
            k = self.arm_kind(n.ast)
            if k:
                out.append(k + '-ARM')
            return out
        if n.id in self.call_nodes:
            out.append('^CALL')
        if n.kind == 'stmt' and isinstance(n.ast, ast.Return):
            v = n.ast.value
            if isinstance(v, ast.Constant) and v.value is True:
                out.append('RET-T')
            elif isinstance(v, ast.Constant) and v.value is False:
                out.append('RET-F')
            else:
                out.append('RET-?')
        return out

    def edge_labels(self, a, b, l):
        if l == 'exc':
            # only "the selected handler raised" is an event of the discipline
            return 'X' if a in self.call_nodes else DROP
        n = self.cfg.node(a)
        if n.kind == 'test' and l in ('T', 'F') and subject_tests(n.ast, self.is_h):
            isnone = eval3(n.ast, assume_none(self.is_h, True))
            notnone = eval3(n.ast, assume_none(self.is_h, False))
            truth = l == 'T'
            if notnone is not None and isnone is not None and notnone != isnone:
                return 'FOUND' if notnone == truth else 'MISSING'
            return 'H?'
        return None


def _renders(hd: _Handle, arm: ast.ExceptHandler, kind: str) -> Tuple[bool, Optional[ast.AST]]:
    """The arm passes the caught instance to the composer of its kind, either
    directly or through a method of the app that does."""
    p = hd.p
    target = '_compose_status_response' if kind == 'STATUS' else '_compose_error_response'
    if arm.name is None:
        return False, None
    for c in walk_self(ast.Module(body=arm.body, type_ignores=[])):
        c = strip_await(c)
        if not (isinstance(c, ast.Call) and isinstance(c.func, ast.Attribute) and is_name(c.func.value, 'self')):
            continue
        pos = [i for i, a in enumerate(c.args) if is_name(a, arm.name)]
        if not pos:
            continue
        if not (len(c.args) >= 2 and is_name(c.args[0], hd.req) and is_name(c.args[1], hd.resp)):
            continue
        if c.func.attr == target and pos == [2]:
            return True, c
        try:
            m = effective_method(p, hd.app, c.func.attr)
        except AnchorError:
            continue
        if pos == [2]:
            mcfg = cfg_of(m, p)
            mix = Index(mcfg)
            try:
                reqn, respn, excn = (param_at(m, i, 'param') for i in (1, 2, 3))
            except AnchorError:
                continue
            inner = [x for x in walk_self(m.node) if isinstance(x, ast.Call) and dotted(x.func) == 'self.' + target
                     and len(x.args) >= 3 and is_name(x.args[0], reqn) and is_name(x.args[1], respn) and is_name(x.args[2], excn)]
            nodes = _call_nodes(mix, inner)
            if nodes and _all_paths_through(mcfg, nodes, pruned(mcfg, _truthy(respn), flow.no_exc)) is None:
                return True, c
    return False, None


def _handle_rules(run, hd: _Handle):
    cfg, f, tag, ix = hd.cfg, hd.f, hd.tag, hd.ix
    # (1) reset dominates the handler call
    def none_attrs(n):
        out = set()
        for base in hd.resp_names:
            out |= assigned_none_attrs(n, base)
        return out

    if not any(none_attrs(n) & {'text', 'data', 'media'} for n in cfg.live_nodes()):
        raise AnchorError('%s: no `%s.text/data/media = None` reset found' % (f.qual, hd.resp))
    for attr in ('text', 'data', 'media'):
        resets = [n.id for n in cfg.live_nodes() if attr in none_attrs(n)]
        for cn in hd.call_nodes:
            path = flow.find_path(cfg, [cfg.entry], [cn], avoid_nodes=resets, edge_filter=hd.http)
            run.check(path is None, '%s: resp.%s is reset to None before the selected handler runs' % (tag, attr), f,
                      'reset %s before %s' % (attr, short(cfg.node(cn).ast)), where='%s:%s' % (f.file, cfg.node(cn).lineno),
                      witness=flow.describe_path(cfg, path) if path else None,
                      runtime_witness='a responder sets resp.%s and then raises: the stale value is still there when the '
                                      'handler runs / is sent' % attr)
    # (2) the call passes (req, resp, ex, params)
    for c in hd.calls:
        names = [hd.req, hd.resp, hd.ex, hd.params]
        ok = len(c.args) >= 4 and all(is_name(a, n) for a, n in zip(c.args, names))
        run.check(ok, '%s: the handler is called as handler(req, resp, ex, params)' % tag, f, c)
    # (3) arms
    for cn in hd.call_nodes:
        arms = {}
        for (y, l) in cfg.succ[cn]:
            t = cfg.node(y)
            if l == 'exc' and t.kind == 'handler':
                k = hd.arm_kind(t.ast)
                if k:
                    arms[k] = t
                elif handler_class_quals(hd.p, f, t.ast) is None or any(
                        hd.p.is_subclass(c, q) is not False for q in handler_class_quals(hd.p, f, t.ast) for c in (HTTP_STATUS, HTTP_ERROR)):
                    raise UnknownIdiom('%s: handler call is wrapped by %s' % (f.qual, t.text()))
        for kind, cls in (('STATUS', 'HTTPStatus'), ('ERROR', 'HTTPError')):
            where = '%s:%s' % (f.file, cfg.node(cn).lineno)
            if kind not in arms:
                run.fail('%s: an %s raised by the error handler is caught and rendered' % (tag, cls), f,
                         'no except %s arm around %s' % (cls, short(cfg.node(cn).ast)), where=where,
                         runtime_witness='an error handler raises %s: it propagates to the server' % cls)
                continue
            run.ok('%s: the handler call is inside a try with an except %s arm' % (tag, cls), where, arms[kind].ast.type)
            ok, c = _renders(hd, arms[kind].ast, kind)
            run.check(ok, '%s: the except %s arm renders the raised instance' % (tag, cls), f,
                      c if c is not None else 'except %s arm' % cls, where='%s:%s' % (f.file, arms[kind].lineno),
                      runtime_witness='an error handler raises %s: the response does not reflect it' % cls)
    # (4) true iff a handler was found
    rets = [n for n in cfg.live_nodes() if n.kind == 'stmt' and isinstance(n.ast, ast.Return)]
    for r in rets:
        if not (isinstance(r.ast.value, ast.Constant) and isinstance(r.ast.value.value, bool)):
            raise UnknownIdiom('%s: returns %s' % (f.qual, short(r.ast)))
    ret_t = [r.id for r in rets if r.ast.value.value is True]
    ret_f = [r.id for r in rets if r.ast.value.value is False]
    find_nodes = cfg.nodes_for(hd.find_stmt)
    starts = [y for n in find_nodes for (y, l) in cfg.succ[n] if l != 'exc']
    for n in cfg.live_nodes():
        if n.kind == 'test' and undecided_subject_test(n.ast, hd.is_h) is not None:
            raise UnknownIdiom('%s: test of the selected handler %s' % (f.qual, short(n.ast)))
    found = pruned(cfg, combine(assume_none(hd.is_h, False), _truthy(hd.resp)), flow.no_exc)
    path = flow.find_path(cfg, starts, [cfg.exit], avoid_nodes=ret_t, edge_filter=found)
    run.check(path is None, '%s: True is returned whenever a handler was found (the caller must not re-raise)' % tag, f,
              'found -> return True', where=f.loc(hd.find_stmt), witness=flow.describe_path(cfg, path) if path else None,
              runtime_witness='a handled exception is re-raised to the server')
    # ... also when the handler raised HTTPStatus/HTTPError (arm exits)
    missing = pruned(cfg, combine(assume_none(hd.is_h, True), _truthy(hd.resp)), flow.no_exc)
    path = flow.find_path(cfg, starts, [cfg.exit], avoid_nodes=ret_f, edge_filter=missing)
    run.check(path is None, '%s: False is returned when no handler is registered (the caller re-raises)' % tag, f,
              'missing -> return False', where=f.loc(hd.find_stmt), witness=flow.describe_path(cfg, path) if path else None,
              runtime_witness='an exception without handler is silently swallowed')
    path = flow.find_path(cfg, starts, hd.call_nodes, edge_filter=missing)
    run.check(path is None, '%s: nothing is called when no handler was found' % tag, f, 'missing -> no call', where=f.loc(hd.find_stmt))
    path = flow.find_path(cfg, starts, [cfg.exit], avoid_nodes=hd.call_nodes, edge_filter=found)
    run.check(path is None, '%s: the found handler is called on every path' % tag, f, 'found -> call', where=f.loc(hd.find_stmt),
              witness=flow.describe_path(cfg, path) if path else None)


def r3_handle(run):
    _anchors(run.project)
    hs = [_Handle(run, app, tag) for app, _q, tag in APPS]
    if hs[0].f is hs[1].f:
        raise AnchorError('ASGI App does not override _handle_exception (sibling comparison impossible)')
    for hd in hs:
        _handle_rules(run, hd)
    dfas = []
    for hd in hs:
        nfa = project_pruned(hd.cfg, hd.labels, hd.edge_labels, accept_xexit='!raise')
        dfas.append(flow.determinise(nfa))
    diff = flow.language_diff(dfas[0], dfas[1])
    for wd in flow.words(dfas[0], limit=3, maxlen=12):
        run.sample({'rule': 'R3', 'accepted_event_trace': wd})
    if diff is None:
        run.ok('WSGI and ASGI _handle_exception are language-equal over {FOUND, MISSING, CALL, STATUS-ARM, ERROR-ARM, RET-T, RET-F}',
               '%s ~ %s' % (hs[0].f.loc(), hs[1].f.loc()))
    else:
        word, which = diff
        side = hs[0] if which == 'left-only' else hs[1]
        run.fail('event trace accepted by %s only: %s' % (side.tag, ' '.join(word)), side.f,
                 'handle-language(%s-only) %s' % (side.tag.lower(), ' '.join(word[-6:])), witness=['trace: ' + ' '.join(word)])


# ---------------------------------------------------------------------------
# R4 rendering
# ---------------------------------------------------------------------------

def _compose_rule(run, f: Func, kind: str, tags: str):
    p = run.project
    f = inline_view(p, f)       # a same-object / module-level helper that is handed resp and the instance is read as its body
    cfg = cfg_of(f, p)
    run.use_cfg(cfg)
    ix = Index(cfg)
    reqn, respn, x = (param_at(f, i, w) for i, w in ((1, 'req'), (2, 'resp'), (3, 'instance')))
    REQ, RESP, X = same_names(f, reqn), same_names(f, respn), same_names(f, x)

    def source(attr):
        """`x.<attr>` or a local that is only ever bound to it"""
        al = _aliases(f, lambda e: attr_in(e, X, (attr,)))
        return lambda e: attr_in(e, X, (attr,)) or (isinstance(e, ast.Name) and e.id in al)

    is_status, is_hdr, is_text = source('status'), source('headers'), source('text')
    in_ = lambda e, names: isinstance(e, ast.Name) and e.id in names  # noqa: E731
    # status
    st = [n.id for n in cfg.live_nodes() if n.kind == 'stmt' and isinstance(n.ast, ast.Assign)
          and any(attr_in(t, RESP, ('status',)) for t in n.ast.targets) and is_status(n.ast.value)]
    path = _all_paths_through(cfg, st)
    run.check(bool(st) and path is None, '%s: %s copies the status of the raised instance' % (tags, f.name), f,
              '%s.status = %s.status' % (respn, x), where=f.loc(), runtime_witness='the response keeps the previous status (e.g. 200)')
    # headers
    is_set_headers = method_of(f, RESP, 'set_headers')
    hcalls = [c for c in walk_self(f.node) if isinstance(c, ast.Call) and is_set_headers(c.func) and len(c.args) == 1 and is_hdr(c.args[0])]
    hnodes = _call_nodes(ix, hcalls)
    has_headers = combine(assume_none(is_hdr, False), lambda e: True if is_hdr(e) else None)
    path = _all_paths_through(cfg, hnodes, pruned(cfg, has_headers, flow.no_exc))
    run.check(bool(hnodes) and path is None, '%s: %s copies the headers of the raised instance when it has any' % (tags, f.name), f,
              '%s.set_headers(%s.headers)' % (respn, x), where=f.loc(), witness=flow.describe_path(cfg, path) if path else None,
              runtime_witness='headers given to the HTTPError/HTTPStatus (Location, Retry-After, Allow, ...) are lost')
    # body source
    if kind == 'ERROR':
        is_ser = method_of(f, {'self'}, '_serialize_error')
        bcalls = [c for c in walk_self(f.node) if isinstance(c, ast.Call) and is_ser(c.func)
                  and len(c.args) >= 3 and in_(c.args[0], REQ) and in_(c.args[1], RESP) and in_(c.args[2], X)]
        bnodes = _call_nodes(ix, bcalls)
        what = 'self._serialize_error(%s, %s, %s)' % (reqn, respn, x)
    else:
        bnodes = [n.id for n in cfg.live_nodes() if n.kind == 'stmt' and isinstance(n.ast, ast.Assign)
                  and any(attr_in(t, RESP, ('text',)) for t in n.ast.targets) and is_text(n.ast.value)]
        what = '%s.text = %s.text' % (respn, x)
    path = _all_paths_through(cfg, bnodes)
    run.check(bool(bnodes) and path is None, '%s: %s sets the body source from the raised instance on every path' % (tags, f.name), f,
              what, where=f.loc(), witness=flow.describe_path(cfg, path) if path else None)
    if kind == 'ERROR' and bnodes and hnodes:
        # the serializer (content type, Vary) runs after the instance's own headers were applied
        back = flow.find_path(cfg, bnodes, hnodes, edge_filter=flow.no_exc)
        run.check(back is None, '%s: the error serializer runs after the instance headers were copied (its Content-Type wins)' % tags, f,
                  'set_headers before _serialize_error', where=f.loc(), witness=flow.describe_path(cfg, back) if back else None,
                  runtime_witness='HTTPError(headers={"Content-Type": ...}) overrides the negotiated error media type')


def _guard_set(ix: Index, nid: int) -> frozenset:
    """Conditions under which node nid runs, normalised: a branch fact that is *equivalent* to `self.A is (not) None`
    (whatever its spelling) is named so; anything else keeps its text."""
    out = set()
    dr = Deref(ix.cfg, ix)
    for (test, truth, tn) in ix.facts3(nid):
        test = dr.norm(test, tn)        # `code = self.code` ... `if code is not None`: a test of self.code
        attrs = sorted({x.attr for x in ast.walk(test) if isinstance(x, ast.Attribute) and is_name(x.value, 'self')})
        named = False
        for a in attrs:
            is_a = lambda e, a=a: isinstance(e, ast.Attribute) and e.attr == a and is_name(e.value, 'self')  # noqa: E731
            r_none = eval3(test, assume_none(is_a, True))
            r_not = eval3(test, assume_none(is_a, False))
            if r_none is None or r_not is None or r_none == r_not:
                continue
            out.add('self.%s is %sNone' % (a, '' if r_none == truth else 'not '))
            named = True
        if not named:
            out.add('%s is %s' % (short(test), truth))
    return frozenset(out)


def _self_attrs(e) -> frozenset:
    return frozenset(x.attr for x in ast.walk(e) if isinstance(x, ast.Attribute) and is_name(x.value, 'self'))


def _self_attrs_at(p, f: Func, e) -> frozenset:
    """The `self.<attr>` reads an expression is made from, looking through locals (`title = self.title`) by their
    reaching definitions at the expression."""
    from .c15_helpers import reaching
    rd = reaching(p, f)
    out: Set[str] = set()
    seen: Set[int] = set()

    def visit(x, nid, depth):
        for y in ast.walk(x):
            if isinstance(y, ast.Attribute) and is_name(y.value, 'self'):
                out.add(y.attr)
            elif isinstance(y, ast.Name) and isinstance(y.ctx, ast.Load) and y.id != 'self' and nid is not None and depth < 4:
                for d in rd.at(nid, y.id):
                    if d.kind == 'assign' and d.idx not in seen:
                        seen.add(d.idx)
                        visit(d.value, d.node, depth + 1)

    visit(e, rd.cfg_node(e), 0)
    return frozenset(out)


def _expand_field_loop(p, f: Func, cfg, ix, store, keyvar):
    """Fields written by `obj[<keyvar>] = <value>` inside a loop over constant field names (see _field_loop)."""
    nid = single(cfg.nodes_for(store), 'field store node', f.qual)
    return _field_loop(p, f, ix, store, nid, keyvar, store.value, exact=True)


def _field_loop(p, f: Func, ix, anchor, nid: int, keyvar: str, content, exact: bool):
    """A document field emitted inside a loop over a CONSTANT table, unrolled: one (guard set, source attributes,
    anchor) entry per field, exactly what the hand-written blocks give.  Two spellings are read:
      A  for <key> in ('title', 'description', ...):  the value is getattr(self, <key>), directly or through one
         local bound once in the loop body
      B  for <key>, <val> in (('title', self.title), ('code', self.code), ...):  the value is <val>
    `content` is the expression written into the document at `anchor` (CFG node `nid`): it must be the value itself
    (exact) or be made from it (XML: `str(value)`).  Branch facts on the value stand for facts on self.<attr>: a fact
    equivalent to `is (not) None` is named so, any other test of it (truthiness, ...) keeps its text - and so differs
    from the `is not None` guard of the sibling.  None: not such a loop (the caller fails closed)."""
    def in_target(t):
        if isinstance(t, ast.Name):
            return t.id == keyvar
        return isinstance(t, ast.Tuple) and len(t.elts) == 2 and all(isinstance(e, ast.Name) for e in t.elts) and t.elts[0].id == keyvar

    loops = [lp for lp in walk_self(f.node) if isinstance(lp, ast.For) and in_target(lp.target) and any(x is anchor for x in ast.walk(lp))]
    if len(loops) != 1:
        return None
    lp = loops[0]
    if lp.orelse:
        return None
    body_mod = ast.Module(body=lp.body, type_ignores=[])

    def rebinds(name):
        out = []
        for a in walk_self(body_mod):
            tgts = a.targets if isinstance(a, ast.Assign) else [a.target] if isinstance(a, (ast.AugAssign, ast.AnnAssign, ast.NamedExpr, ast.For)) else []
            if any(isinstance(x, ast.Name) and x.id == name and not isinstance(x.ctx, ast.Load) for t in tgts for x in ast.walk(t)):
                out.append(a)
        return out

    if rebinds(keyvar):
        return None
    if isinstance(lp.target, ast.Name):
        names = p.fold(f.module, lp.iter, None, f)
        if not (isinstance(names, (tuple, list)) and names and all(isinstance(x, str) for x in names)):
            return None
        if len(set(names)) != len(names):
            return None
        table = [(nm, nm) for nm in names]

        def is_source(e):
            return (isinstance(e, ast.Call) and isinstance(e.func, ast.Name) and e.func.id == 'getattr' and len(e.args) == 2
                    and not e.keywords and is_name(e.args[0], 'self') and is_name(e.args[1], keyvar))

        valvars = set()
        for a in walk_self(body_mod):
            if isinstance(a, ast.Assign) and len(a.targets) == 1 and isinstance(a.targets[0], ast.Name) and is_source(a.value):
                if len(rebinds(a.targets[0].id)) == 1:
                    valvars.add(a.targets[0].id)
    else:
        if not isinstance(lp.iter, (ast.Tuple, ast.List)) or not lp.iter.elts:
            return None
        table = []
        for el in lp.iter.elts:
            if not (isinstance(el, (ast.Tuple, ast.List)) and len(el.elts) == 2):
                return None
            nm = p.fold(f.module, el.elts[0], None, f)
            src = el.elts[1]
            if not isinstance(nm, str) or not (isinstance(src, ast.Attribute) and is_name(src.value, 'self')):
                return None
            table.append((nm, src.attr))
        if len({nm for nm, _a in table}) != len(table):
            return None
        vv = lp.target.elts[1].id
        if rebinds(vv):
            return None
        valvars = {vv}

        def is_source(e):
            return False

    def is_val(e):
        return (isinstance(e, ast.Name) and e.id in valvars) or is_source(e)

    if exact:
        if not is_val(content):
            return None
    elif not any(is_val(x) for x in ast.walk(content)):
        return None
    out = {}
    for nm, attr in table:
        guards = set()
        for (test, truth) in ix.facts(nid):
            if not any(is_val(x) for x in ast.walk(test)):
                # unrelated tests keep their text; one on the key alone cannot be unrolled here
                if any(is_name(x, keyvar) for x in ast.walk(test)):
                    return None
                guards.add('%s is %s' % (short(test), truth))
                continue
            # tests on the loop-local value stand for tests on self.<attr>
            r_none = eval3(test, assume_none(is_val, True))
            r_not = eval3(test, assume_none(is_val, False))
            if r_none is None or r_not is None or r_none == r_not:
                guards.add('self.%s: %s is %s' % (attr, short(test), truth))       # e.g. a truthiness test: not an `is None` test
            else:
                guards.add('self.%s is %sNone' % (attr, '' if r_none == truth else 'not '))
        out[nm] = (frozenset(guards), frozenset([attr]), anchor)
    return out


def _dict_fields(run, f: Func):
    p = run.project
    cfg = cfg_of(f, p)
    run.use_cfg(cfg)
    ix = Index(cfg)
    rets = [n for n in walk_self(f.node) if isinstance(n, ast.Return) and isinstance(n.value, ast.Name)]
    r = single(rets, 'return of the error document', f.qual)
    obj = r.value.id
    fields = {}
    objs = same_names(f, obj)
    # (the returned local may itself be another name of the document: doc = obj ... return doc)
    for nm, v in once_bound(f).items():
        if nm in objs and isinstance(v, ast.Name):
            objs |= same_names(f, v.id)
    for n in walk_self(f.node):
        if isinstance(n, ast.Assign):
            for t in n.targets:
                if isinstance(t, ast.Subscript) and isinstance(t.value, ast.Name) and t.value.id in objs:
                    k = t.slice
                    if isinstance(k, ast.Name):
                        # `for name in ('description', 'code', ...): value = getattr(self, name); if <guard on value>: obj[name] = value`
                        expanded = _expand_field_loop(p, f, cfg, ix, n, k.id)
                        if expanded is not None:
                            fields.update(expanded)
                            continue
                    if not (isinstance(k, ast.Constant) and isinstance(k.value, str)):
                        raise UnknownIdiom('%s: field key %s' % (f.qual, short(k)))
                    nid = single(cfg.nodes_for(n), 'field store node', f.qual)
                    fields[k.value] = (_guard_set(ix, nid), _self_attrs_at(p, f, n.value), n)
    if not fields:
        raise AnchorError('%s: no field stores into %s' % (f.qual, obj))
    return fields


def _xml_fields(run, f: Func):
    p = run.project
    cfg = cfg_of(f, p)
    run.use_cfg(cfg)
    ix = Index(cfg)
    root = None
    for n in walk_self(f.node):
        if isinstance(n, ast.Assign) and len(n.targets) == 1 and isinstance(n.targets[0], ast.Name):
            v = n.value
            if isinstance(v, ast.Call) and isinstance(v.func, ast.Attribute) and v.func.attr == 'Element':
                root = n.targets[0].id
    if root is None:
        raise AnchorError('%s: root XML element not found' % f.qual)

    sub_al = _aliases(f, lambda e: isinstance(e, ast.Attribute) and e.attr == 'SubElement')        # sub = et.SubElement

    def subs(parent):
        parents = same_names(f, parent)
        return [c for c in walk_self(f.node) if isinstance(c, ast.Call) and len(c.args) >= 2
                and ((isinstance(c.func, ast.Attribute) and c.func.attr == 'SubElement') or (isinstance(c.func, ast.Name) and c.func.id in sub_al))
                and isinstance(c.args[0], ast.Name) and c.args[0].id in parents]

    fields = {}
    for c in subs(root):
        k = c.args[1]
        if isinstance(k, ast.Name):
            # `for name in ('title', 'description', 'code'): value = getattr(self, name); if <guard on value>:
            #      et.SubElement(root, name).text = str(value)` - unrolled over the constant table
            knid = ix.node_of(c, 'SubElement call')
            kst = cfg.node(knid).ast
            expanded = None
            if (isinstance(kst, ast.Assign) and len(kst.targets) == 1 and isinstance(kst.targets[0], ast.Attribute)
                    and kst.targets[0].attr == 'text' and kst.targets[0].value is c):
                expanded = _field_loop(p, f, ix, c, knid, k.id, kst.value, exact=False)
            if expanded is not None:
                dup = sorted(set(expanded) & set(fields))
                if dup:
                    raise UnknownIdiom('%s: element %r emitted by a loop and by a statement of its own' % (f.qual, dup[0]))
                fields.update(expanded)
                continue
        if not (isinstance(k, ast.Constant) and isinstance(k.value, str)):
            raise UnknownIdiom('%s: element name %s' % (f.qual, short(k)))
        nid = ix.node_of(c, 'SubElement call')
        stmt = cfg.node(nid).ast
        attrs = None
        if isinstance(stmt, ast.Assign) and len(stmt.targets) == 1:
            t = stmt.targets[0]
            if isinstance(t, ast.Attribute) and t.attr == 'text' and t.value is c:
                attrs = _self_attrs_at(p, f, stmt.value)
            elif isinstance(t, ast.Name) and stmt.value is c:
                inner = subs(t.id)
                acc = set()
                for a2 in walk_self(f.node):
                    if isinstance(a2, ast.Assign) and any(attr_of(t2, t.id, ('text',)) for t2 in a2.targets):
                        acc |= set(_self_attrs_at(p, f, a2.value))
                for ic in inner:
                    inid = ix.node_of(ic, 'SubElement call')
                    ist = cfg.node(inid).ast
                    if isinstance(ist, ast.Assign):
                        acc |= set(_self_attrs_at(p, f, ist.value))
                attrs = frozenset(acc)
        if attrs is None:
            raise UnknownIdiom('%s: how element %r gets its content' % (f.qual, k.value))
        fields[k.value] = (_guard_set(ix, nid), attrs, c)
    if not fields:
        raise AnchorError('%s: no sub-elements of the root element' % f.qual)
    return fields


_DOC_CODE = re.compile(r'^\s*(\d{3})\s+\S')


def _status_tables(run):
    p = run.project

    def delegation(init):
        """The call by which a constructor hands over to a base constructor:
        -> (call, positional args without self, explicit base class or None)"""
        found = []
        for n in walk_self(init.node):
            if not (isinstance(n, ast.Call) and isinstance(n.func, ast.Attribute) and n.func.attr == '__init__'):
                continue
            v = n.func.value
            if isinstance(v, ast.Call) and is_name(v.func, 'super'):
                found.append((n, list(n.args), None))
            else:
                q = p.resolve_expr(init.module, v, init)
                if q in p.classes and n.args and is_name(n.args[0], 'self'):
                    found.append((n, list(n.args[1:]), q))
        if not found:
            raise UnknownIdiom('%s does not call a base constructor' % init.qual)
        return single(found, 'base constructor call', init.qual)

    def status_of(q, base):
        """Follow the constructor delegation chain of class q until a
        constant status is passed: -> (owner class, value, call) or None."""
        init = p.lookup_method(q, '__init__')
        for _ in range(12):
            if init is None or init.cls is None or init.cls.qual == base:
                return None
            call, pos, explicit = delegation(init)
            pos = [a for a in pos if not isinstance(a, ast.Starred)]
            if pos and not (isinstance(pos[0], ast.Name) and pos[0].id in init.params()):
                val = fold_in(p, init, pos[0])
                if val is UNKNOWN:
                    raise UnknownIdiom('%s: status argument %s is not a constant' % (init.qual, short(pos[0])))
                return (init.cls.qual, val, call)
            init = p.lookup_method(explicit, '__init__') if explicit else p.lookup_method(q, '__init__', after=init.cls.qual)
        return None

    def code_of(val):
        if isinstance(val, int) and not isinstance(val, bool):
            return val
        if isinstance(val, str) and re.match(r'^\d{3}( |$)', val):
            return int(val[:3])
        return None

    n_cls = 0
    for base, lo, hi, family in ((HTTP_ERROR, 400, 599, 'HTTPError'), (HTTP_STATUS, 300, 399, 'redirect')):
        subs = sorted(q for q in p.subclasses(base) if q != base and not q.startswith(('falcon.bench', 'falcon.cmd', 'falcon.testing')))
        if family == 'redirect':
            subs = [q for q in subs if q.startswith('falcon.redirects.')]
        for q in subs:
            c = p.cls(q)
            n_cls += 1
            status = status_of(q, base)
            if status is None:
                raise UnknownIdiom('%s: no constant status found along its constructor chain' % q)
            k, val, node = status
            code = code_of(val)
            if k == q:
                run.check(code is not None and lo <= code <= hi,
                          '%s subclass passes a constant status in %d-%d' % (family, lo, hi), c.methods['__init__'],
                          [a for a in node.args if not is_name(a, 'self')][0],
                          runtime_witness='raising %s yields status %r' % (c.name, val))
            doc = ast.get_docstring(c.node) or ''
            m = _DOC_CODE.match(doc.splitlines()[0] if doc else '')
            if m:
                run.check(code == int(m.group(1)), 'status code documented in the first docstring line of %s is the one it passes' % c.name,
                          c.qual, '%s documents %s, passes %r' % (c.name, m.group(1), val) if code != int(m.group(1)) else '%s %s' % (c.name, m.group(1)),
                          where=c.loc(), runtime_witness='raising %s yields status %r, not %s' % (c.name, val, m.group(1)))
    if n_cls < 10:
        raise AnchorError('only %d HTTPError/redirect subclasses found' % n_cls)


def _ctor_wiring(run, qual: str, attrs):
    p = run.project
    f = p.func(qual)
    cfg = cfg_of(f, p)
    run.use_cfg(cfg)
    for a in attrs:
        if a not in f.params():
            raise AnchorError('%s has no parameter %s' % (qual, a))
        names = same_names(f, a)

        def stores_arg(st) -> bool:
            """`self.<a> = <expression of the argument>`, also as one position of a tuple assignment"""
            if not isinstance(st, (ast.Assign, ast.AnnAssign)) or st.value is None:
                return False
            for t in (st.targets if isinstance(st, ast.Assign) else [st.target]):
                if is_self_attr(t, a) and any(isinstance(x, ast.Name) and x.id in names for x in ast.walk(st.value)):
                    return True
                if isinstance(t, (ast.Tuple, ast.List)) and isinstance(st.value, (ast.Tuple, ast.List)) and len(t.elts) == len(st.value.elts):
                    for te, ve in zip(t.elts, st.value.elts):
                        if is_self_attr(te, a) and any(isinstance(x, ast.Name) and x.id in names for x in ast.walk(ve)):
                            return True
            return False

        nodes = [n.id for n in cfg.live_nodes() if n.kind == 'stmt' and stores_arg(n.ast)]
        path = _all_paths_through(cfg, nodes)
        run.check(bool(nodes) and path is None, '%s stores its %s argument in self.%s' % (f.cls.name, a, a), f, 'self.%s = %s' % (a, a),
                  where=f.loc())


# ---------------------------------------------------------------------------
# R4 (f) the default serializer's media type is negotiated, on every path
# ---------------------------------------------------------------------------

CASE_METHODS = ('lower', 'upper', 'casefold')
TEXT_METHODS = CASE_METHODS + ('strip', 'lstrip', 'rstrip')
CATCH_ALL_RANGE = '*/*'


class _AcceptText:
    """What, in the serializer, denotes the text of the Accept header: `<req>.accept`, a parameterless str method of
    it, or a local all of whose bindings are such (greatest fixpoint, so `accept = accept.lower()` stays one)."""

    def __init__(self, p, f: Func, reqn: str):
        self.p, self.f, self.reqn = p, f, reqn
        binds: Dict[str, List[Optional[ast.AST]]] = {}
        for n in walk_self(f.node):
            if isinstance(n, ast.Assign):
                for t in n.targets:
                    for xn in ast.walk(t):
                        if isinstance(xn, ast.Name) and isinstance(xn.ctx, ast.Store):
                            binds.setdefault(xn.id, []).append(n.value if t is xn else None)
            elif isinstance(n, ast.AnnAssign) and isinstance(n.target, ast.Name):
                if n.value is not None:
                    binds.setdefault(n.target.id, []).append(n.value)
            elif isinstance(n, (ast.For, ast.AsyncFor, ast.AugAssign, ast.NamedExpr)):
                for xn in ast.walk(n.target):
                    if isinstance(xn, ast.Name):
                        binds.setdefault(xn.id, []).append(None)
        self.binds = binds
        names = {k for k in binds if k not in f.params()}
        while True:
            keep = {k for k in names if all(v is not None and self._is(v, names) for v in binds[k])}
            if keep == names:
                break
            names = keep
        self.names = names

    def _is(self, e, names) -> bool:
        if attr_of(e, self.reqn, ('accept',)):
            return True
        if isinstance(e, ast.Name):
            return e.id in names
        if isinstance(e, ast.Call) and isinstance(e.func, ast.Attribute) and e.func.attr in TEXT_METHODS and not e.args and not e.keywords:
            return self._is(e.func.value, names)
        return False

    def is_text(self, e) -> bool:
        return self._is(e, self.names)

    def mentions(self, e) -> bool:
        return any(self.is_text(x) for x in ast.walk(e))

    def values(self, e, c: str) -> Set[str]:
        """Possible values of a text expression when the header is exactly c (flow-insensitive over local bindings)."""
        vals: Dict[str, Set[str]] = {k: set() for k in self.names}

        def ev(x) -> Set[str]:
            if attr_of(x, self.reqn, ('accept',)):
                return {c}
            if isinstance(x, ast.Name):
                return set(vals.get(x.id, ()))
            return {getattr(v, x.func.attr)() for v in ev(x.func.value)}

        for _ in range(8):
            changed = False
            for k in self.names:
                new = set()
                for b in self.binds[k]:
                    new |= ev(b)
                if new != vals[k]:
                    vals[k] = new
                    changed = True
            if not changed:
                break
        return ev(e)

    def forms(self, e) -> Set[str]:
        """{'raw', 'cased', 'other'}: how far the expression is from the header text itself."""
        forms: Dict[str, Set[str]] = {k: set() for k in self.names}

        def ev(x) -> Set[str]:
            if attr_of(x, self.reqn, ('accept',)):
                return {'raw'}
            if isinstance(x, ast.Name):
                return set(forms.get(x.id, ()))
            inner = ev(x.func.value)
            if x.func.attr in CASE_METHODS:
                return {'other' if i == 'other' else 'cased' for i in inner}
            return {'other'} if inner else set()

        for _ in range(8):
            changed = False
            for k in self.names:
                new = set()
                for b in self.binds[k]:
                    new |= ev(b)
                if new != forms[k]:
                    forms[k] = new
                    changed = True
            if not changed:
                break
        return ev(e)

    # -- tests of the text --------------------------------------------------
    def _strs(self, e):
        v = self.p.fold(self.f.module, e, None, self.f)
        if isinstance(v, str):
            return v
        if isinstance(v, (tuple, list, frozenset, set)) and v and all(isinstance(x, str) for x in v):
            return tuple(v)
        if isinstance(e, ast.Set) and e.elts:
            vs = [self.p.fold(self.f.module, x, None, self.f) for x in e.elts]
            if all(isinstance(x, str) for x in vs):
                return tuple(vs)
        return None

    def classify(self, e):
        """-> (kind, text expr, constant(s), negated) | None.  kinds: eq, oneof (text in <constants>), substr (<constant> in text),
        prefix, suffix, truth."""
        if isinstance(e, ast.Compare) and len(e.ops) == 1:
            op, l, r = e.ops[0], e.left, e.comparators[0]
            if isinstance(op, (ast.Eq, ast.NotEq)):
                for a, b in ((l, r), (r, l)):
                    k = self._strs(b) if self.is_text(a) else None
                    if isinstance(k, str):
                        return ('eq', a, k, isinstance(op, ast.NotEq))
            if isinstance(op, (ast.In, ast.NotIn)):
                neg = isinstance(op, ast.NotIn)
                if self.is_text(l):
                    k = self._strs(r)
                    if isinstance(k, tuple):
                        return ('oneof', l, k, neg)
                    if isinstance(k, str):
                        return ('substr-of-constant', l, k, neg)
                elif self.is_text(r):
                    k = self._strs(l)
                    if isinstance(k, str):
                        return ('substr', r, k, neg)
            return None
        if isinstance(e, ast.Call) and isinstance(e.func, ast.Attribute) and e.func.attr in ('startswith', 'endswith') \
                and self.is_text(e.func.value) and len(e.args) == 1 and not e.keywords:
            k = self._strs(e.args[0])
            if k is not None:
                return ('prefix' if e.func.attr == 'startswith' else 'suffix', e.func.value, k, False)
            return None
        if self.is_text(e):
            return ('truth', e, None, False)
        return None

    def atom_const(self, c: str) -> 'Atom':
        """Valuation when the Accept header is exactly the text c (concrete evaluation)."""
        def atom(e):
            k = self.classify(e)
            if k is None:
                return None
            kind, text, const, neg = k
            res = set()
            for v in self.values(text, c):
                if kind == 'eq':
                    r = v == const
                elif kind == 'oneof':
                    r = v in const
                elif kind == 'substr-of-constant':
                    r = v in const
                elif kind == 'substr':
                    r = const in v
                elif kind == 'prefix':
                    r = v.startswith(const)
                elif kind == 'suffix':
                    r = v.endswith(const)
                else:
                    r = bool(v)
                res.add(r != neg)
            return res.pop() if len(res) == 1 else None

        return atom

    def atom_other(self, accepted: Set[str], unreadable: List[ast.AST]) -> 'Atom':
        """Valuation when the Accept header is any text other than the accepted constants: an exact comparison with
        accepted constants only is false; every other test of the text stays open."""
        def invariant(s):
            return s.lower() == s.upper()

        def atom(e):
            k = self.classify(e)
            if k is None or k[0] not in ('eq', 'oneof'):
                return None
            kind, text, const, neg = k
            consts = (const,) if kind == 'eq' else const
            forms = self.forms(text)
            if not all(x in accepted for x in consts):
                return None
            if forms == {'raw'} or (forms <= {'raw', 'cased'} and all(invariant(x) for x in consts)):
                return neg          # `text == <accepted>` is False, `!=` True
            if not any(id(e) == id(u) for u in unreadable):
                unreadable.append(e)
            return None

        return atom


def _leaves(test):
    t = strip_await(test)
    if isinstance(t, ast.UnaryOp) and isinstance(t.op, ast.Not):
        return _leaves(t.operand)
    if isinstance(t, ast.BoolOp):
        out = []
        for v in t.values:
            out.extend(_leaves(v))
        return out
    return [t]


def once_bound(f: Func) -> Dict[str, ast.AST]:
    """Locals of f (not parameters) bound exactly once, by a plain assignment: name -> value expression.  Such a
    local IS what it was bound to wherever it is read after the binding (reading ability 1)."""
    cnt: Dict[str, int] = {}
    val: Dict[str, ast.AST] = {}
    for x in walk_self(f.node):
        if isinstance(x, ast.Name) and isinstance(x.ctx, (ast.Store, ast.Del)):
            cnt[x.id] = cnt.get(x.id, 0) + 1
        elif isinstance(x, ast.ExceptHandler) and x.name:
            cnt[x.name] = cnt.get(x.name, 0) + 2
        elif isinstance(x, (ast.Global, ast.Nonlocal)):
            for nm in x.names:
                cnt[nm] = cnt.get(nm, 0) + 2
        if isinstance(x, ast.Assign) and len(x.targets) == 1 and isinstance(x.targets[0], ast.Name):
            val[x.targets[0].id] = x.value
        elif isinstance(x, ast.AnnAssign) and isinstance(x.target, ast.Name) and x.value is not None:
            val[x.target.id] = x.value
    params = set(f.params())
    return {k: v for k, v in val.items() if cnt.get(k) == 1 and k not in params}


def fold_in(p, f: Func, e, depth=0):
    """p.fold of an expression of f, with the locals bound once to a constant expression read as that constant
    (reading abilities 1 and 3: `sep = ', '` / `types = _TYPES` followed by a use of the local)."""
    v = p.fold(f.module, e, f.cls, f)
    if v is not UNKNOWN or depth > 4:
        return v
    ob = once_bound(f)
    used = {x.id for x in ast.walk(e) if isinstance(x, ast.Name) and isinstance(x.ctx, ast.Load) and x.id in ob}
    if not used:
        return UNKNOWN
    if isinstance(e, ast.Name):
        return fold_in(p, f, ob[e.id], depth + 1)
    import copy as _copy

    class Sub(ast.NodeTransformer):
        def visit_Name(self, n):
            if isinstance(n.ctx, ast.Load) and n.id in used:
                w = fold_in(p, f, ob[n.id], depth + 1)
                if isinstance(w, (str, bytes, int, float, bool, type(None))):
                    return ast.copy_location(ast.Constant(value=w), n)
                if isinstance(w, (tuple, list)) and all(isinstance(i, (str, bytes, int)) for i in w):
                    return ast.copy_location((ast.Tuple if isinstance(w, tuple) else ast.List)(
                        elts=[ast.Constant(value=i) for i in w], ctx=ast.Load()), n)
            return n

    e2 = ast.fix_missing_locations(Sub().visit(_copy.deepcopy(e)))
    if any(isinstance(x, ast.Name) and x.id in used for x in ast.walk(e2)):
        return UNKNOWN
    return p.fold(f.module, e2, f.cls, f)


def plain_helper(p, f: Func, call: ast.Call) -> Optional[Func]:
    """The module-level function / method of the caller's own class a call resolves to, when the call can be read
    as its body (reading ability 2): no decorator that changes what is called, not a generator, no */** in the call."""
    t = p.callee(f, call)
    if not isinstance(t, Func) or t is f:
        return None
    if any(d not in ('staticmethod', 'classmethod') for d in t.decorators):
        return None
    if any(isinstance(x, (ast.Yield, ast.YieldFrom)) for x in walk_self(t.node)):
        return None
    if any(isinstance(a, ast.Starred) for a in call.args) or any(k.arg is None for k in call.keywords):
        return None
    if t.parent is not None:
        return None            # a closure: its free variables belong to another frame
    return t


def bind_args(g: Func, call: ast.Call, bound_self: Optional[bool] = None) -> Optional[Dict[str, ast.AST]]:
    """parameter name -> argument expression of the caller / default expression of the callee; None when the call
    does not bind.  `self` / `cls` of a bound method call is left out."""
    a = g.node.args
    if a.vararg or a.kwarg:
        return None
    pos = [x.arg for x in a.posonlyargs + a.args]
    if bound_self is None:
        bound_self = g.cls is not None and 'staticmethod' not in g.decorators and isinstance(call.func, ast.Attribute)
    if bound_self:
        pos = pos[1:]
    if len(call.args) > len(pos):
        return None
    out: Dict[str, ast.AST] = dict(zip(pos, call.args))
    kwonly = [x.arg for x in a.kwonlyargs]
    for k in call.keywords:
        if k.arg in out or k.arg not in pos + kwonly:
            return None
        out[k.arg] = k.value
    dpos = pos[len(pos) - len(a.defaults):] if a.defaults else []
    for nm, d in zip(dpos, a.defaults[len(a.defaults) - len(dpos):] if dpos else []):
        out.setdefault(nm, d)
    for x, d in zip(a.kwonlyargs, a.kw_defaults):
        if d is not None:
            out.setdefault(x.arg, d)
    if set(out) != set(pos + kwonly):
        return None
    return out


def inert_default(p, g: Func, param: str) -> Optional[ast.AST]:
    """The default expression of `param` when the parameter is an additive, inert extension (reading ability 4): it
    has a default, is never rebound in g, and no call anywhere in the analysed package of a function / method called
    g.name passes it (by keyword, by position, or through */**).  When the function object is stored in an attribute
    (`self._serialize_error = helpers.default_serialize_error`) the calls of that attribute are its calls too; any other
    use of the function as a value means its callers are not all visible.  For the callers the package has, the
    parameter IS its default."""
    a = g.node.args
    pos = [x.arg for x in a.posonlyargs + a.args]
    default = None
    idx = None
    if param in pos:
        idx = pos.index(param)
        k = idx - (len(pos) - len(a.defaults))
        if k < 0:
            return None
        default = a.defaults[k]
    else:
        for x, d in zip(a.kwonlyargs, a.kw_defaults):
            if x.arg == param:
                default = d
        if default is None:
            return None
    if any(isinstance(x, ast.Name) and x.id == param and isinstance(x.ctx, (ast.Store, ast.Del)) for x in ast.walk(g.node)):
        return None
    cache = p.__dict__.setdefault('_c04_refs', {})
    if 'parents' not in cache:
        par = {}
        for m in p.modules.values():
            for n in ast.walk(m.tree):
                for c in ast.iter_child_nodes(n):
                    par[id(c)] = n
        cache['parents'] = par
    par = cache['parents']
    shift = 1 if (g.cls is not None and 'staticmethod' not in g.decorators) else 0
    names = {g.name}
    calls = []
    # pass 1: the function as a value
    for m in p.modules.values():
        for x in ast.walk(m.tree):
            if isinstance(x, ast.Constant) and x.value == g.name:
                up = par.get(id(x))
                while up is not None and not isinstance(up, (ast.Assign, ast.AnnAssign, ast.AugAssign, ast.FunctionDef, ast.AsyncFunctionDef, ast.ClassDef)):
                    up = par.get(id(up))
                tg = up.targets if isinstance(up, ast.Assign) else [getattr(up, 'target', None)] if up is not None else []
                if any(isinstance(t, ast.Name) and t.id == '__all__' for t in tg):
                    continue        # an export list
                return None         # getattr(obj, '<name>') and the like
            nm = x.attr if isinstance(x, ast.Attribute) else (x.id if isinstance(x, ast.Name) else None)
            if nm != g.name or not isinstance(getattr(x, 'ctx', None), ast.Load):
                continue
            up = par.get(id(x))
            if isinstance(up, ast.Call) and up.func is x:
                continue
            if isinstance(up, ast.Assign) and up.value is x and len(up.targets) == 1 and isinstance(up.targets[0], ast.Attribute):
                names.add(up.targets[0].attr)       # stored in an attribute: called through it
                continue
            if g.cls is None or isinstance(x, ast.Name):
                return None         # handed around as an object
            # `<obj>.<name>` read without a call: a bound method handed around
            return None
    for m in p.modules.values():
        for c in ast.walk(m.tree):
            if isinstance(c, ast.Call):
                fn = c.func
                nm = fn.attr if isinstance(fn, ast.Attribute) else (fn.id if isinstance(fn, ast.Name) else None)
                if nm in names:
                    calls.append(c)
    for c in calls:
        fn = c.func
        if any(isinstance(x, ast.Starred) for x in c.args) or any(k.arg is None for k in c.keywords):
            return None
        if any(k.arg == param for k in c.keywords):
            return None
        if idx is not None:
            # bound call (attribute): self is not among the arguments; plain name call of a method object: it is
            n_given = len(c.args) + (shift if isinstance(fn, ast.Attribute) else 0)
            if n_given > idx:
                return None
    return default
# Contract names the rules of C04 / C05 anchor on: a call of one of these is never replaced by its body (the rules judge the
# callee on its own and look for the call).
INLINE_KEEP = frozenset({
    '__init__', '__call__', '_handle_exception', '_find_error_handler', '_compose_error_response', '_compose_status_response',
    'add_error_handler', '_serialize_error', '_http_status_handler', '_http_error_handler', '_python_error_handler',
    '_get_body', 'render_body', '_wsgi_headers', '_asgi_headers', 'set_header', 'append_header', 'set_headers', 'get_header',
    'to_dict', '_to_xml', 'to_json', 'to_xml', 'serialize', 'deserialize', 'code_to_http_status', '_schedule_callbacks',
    '_get_responder', 'log_error', 'default_serialize_error', 'client_prefers', 'client_accepts', '_resolve', 'close', 'read',
    '_set_media_type', '_prepare_middleware', '_create_resolver', '_ws_cleanup_on_error',
})
_INLINE_DEPTH = 2


class _RenameLocals(ast.NodeTransformer):
    def __init__(self, mapping):
        self.mapping = mapping

    def visit_Name(self, n):
        if n.id in self.mapping:
            return ast.copy_location(ast.Name(id=self.mapping[n.id], ctx=n.ctx), n)
        return n

    def visit_ExceptHandler(self, n):
        self.generic_visit(n)
        if n.name in self.mapping:
            n.name = self.mapping[n.name]
        return n


def _helper_body(m: Func):
    """the helper's statements (a fresh copy, docstring dropped) with leading guards `if c: return` turned into
    `if not c: <rest>`; -> (statements, returned expression | None) or None when a `return` is left inside"""
    import copy as _copy
    stmts = [_copy.deepcopy(b) for b in m.node.body]
    if stmts and isinstance(stmts[0], ast.Expr) and isinstance(stmts[0].value, ast.Constant) and isinstance(stmts[0].value.value, str):
        stmts = stmts[1:]

    def fold(ss):
        for i, st in enumerate(ss):
            if isinstance(st, ast.If) and not st.orelse and len(st.body) == 1 and isinstance(st.body[0], ast.Return) and st.body[0].value is None:
                rest = fold(ss[i + 1:])
                if rest and isinstance(rest[-1], ast.Return) and rest[-1].value is not None:
                    return ss
                if not rest:
                    return ss[:i] + [ast.copy_location(ast.Expr(value=st.test), st)]
                neg = ast.copy_location(ast.UnaryOp(op=ast.Not(), operand=st.test), st.test)
                return ss[:i] + [ast.copy_location(ast.If(test=neg, body=rest, orelse=[]), st)]
        if ss and isinstance(ss[-1], ast.Return) and ss[-1].value is None:
            return ss[:-1]
        return ss

    stmts = fold(stmts)
    ret = None
    if stmts and isinstance(stmts[-1], ast.Return):
        ret = stmts.pop().value
    for st in stmts:
        for x in walk_self(st):
            if isinstance(x, ast.Return):
                return None
    return stmts, ret


def _inline_block(p, owner: Func, stmts, depth: int, stack, counter, keep) -> Tuple[list, bool]:
    import copy as _copy
    out: list = []
    changed = False
    for s in stmts:
        if not isinstance(s, (ast.FunctionDef, ast.AsyncFunctionDef, ast.ClassDef)):
            for fld in ('body', 'orelse', 'finalbody'):
                blk = getattr(s, fld, None)
                if isinstance(blk, list) and blk and isinstance(blk[0], ast.stmt):
                    nb, ch = _inline_block(p, owner, blk, depth, stack, counter, keep)
                    if ch:
                        setattr(s, fld, nb)
                        changed = True
            for h in getattr(s, 'handlers', []) or []:
                nb, ch = _inline_block(p, owner, h.body, depth, stack, counter, keep)
                if ch:
                    h.body = nb
                    changed = True
        val = None
        if isinstance(s, ast.Expr):
            val = s.value
        elif isinstance(s, ast.Assign) and len(s.targets) == 1:
            val = s.value
        elif isinstance(s, ast.AnnAssign) and s.value is not None:
            val = s.value
        elif isinstance(s, ast.Return) and s.value is not None:
            val = s.value
        awaited = isinstance(val, ast.Await)
        call = val.value if awaited else val
        m = None
        if isinstance(call, ast.Call) and depth < _INLINE_DEPTH:
            m = plain_helper(p, owner, call)
        if m is not None:
            fn = call.func
            ok = (m.name not in keep and m.qual not in stack and m.module is owner.module and m.is_async == awaited
                  and not any(isinstance(x, (ast.FunctionDef, ast.AsyncFunctionDef, ast.ClassDef, ast.Lambda, ast.Global, ast.Nonlocal))
                              for x in walk_self(m.node) if x is not m.node))
            if ok and m.cls is not None:
                # a method: only `self.<m>(...)` from a method whose self is the same object
                ok = (not m.decorators and isinstance(fn, ast.Attribute) and is_name(fn.value, 'self') and owner.cls is not None
                      and bool(m.node.args.args) and m.node.args.args[0].arg == 'self')
            elif ok:
                ok = isinstance(fn, ast.Name)
            bound = bind_args(m, call) if ok else None
            hb = _helper_body(m) if bound is not None else None
            if hb is not None:
                body, ret = hb
                counter[0] += 1
                stored = {x.id for b in m.node.body for x in ast.walk(b) if isinstance(x, ast.Name) and isinstance(x.ctx, (ast.Store, ast.Del))}
                stored |= {h.name for b in m.node.body for h in ast.walk(b) if isinstance(h, ast.ExceptHandler) and h.name}
                names = (set(bound) | stored) - {'self'}
                ren = {nm: '%s__%s%d' % (nm, m.name.strip('_'), counter[0]) for nm in names}
                binds = [ast.copy_location(ast.Assign(targets=[ast.copy_location(ast.Name(id=ren[k], ctx=ast.Store()), call)],
                                                      value=_copy.deepcopy(v), lineno=call.lineno), call)
                         for k, v in bound.items() if k != 'self']
                rn = _RenameLocals(ren)
                body = [rn.visit(b) for b in body]
                ret = rn.visit(ret) if ret is not None else None
                body, _ch = _inline_block(p, m, body, depth + 1, stack + (m.qual,), counter, keep)
                if isinstance(s, ast.Expr):
                    tail = [ast.copy_location(ast.Expr(value=ret), s)] if ret is not None else []
                else:
                    t2 = _copy.copy(s)
                    t2.value = ret if ret is not None else ast.copy_location(ast.Constant(value=None), call)
                    tail = [t2]
                out.extend(binds + body + tail)
                changed = True
                continue
        out.append(s)
    return out, changed


# App.__init__ calls public registration methods (add_middleware, add_route, ...) that stay calls; only private helpers of the
# constructor are read as their bodies
_INIT_KEEP = INLINE_KEEP | frozenset({'add_middleware', 'add_route', 'add_sink', 'add_static_route', 'set_error_serializer',
                                      '_prepare_middleware', '_update_sink_and_static_routes'})


def inline_view(p, f: Func, keep=INLINE_KEEP) -> Func:
    """Reading ability 2 for the rules that judge a protocol spread over the statements of ONE function: a call - standing
    alone as a statement, or as the value of a single assignment / return, awaited for a coroutine - of a module-level
    function of the same module or of a plain method of the same object (`self.m(...)`) whose only valued `return` is its
    last statement is replaced by the callee's body, parameters bound to the arguments (defaults for what is not passed:
    reading ability 4) and locals renamed apart; bounded depth, no recursion.  Calls of the contract names in INLINE_KEEP
    stay calls.  A function that needs nothing of this is returned as it is (same Func, same AST)."""
    import copy as _copy
    cache = p.__dict__.setdefault('_c04_inline_views', {})
    key = (f.qual, id(f.node), keep)
    if key in cache:
        return cache[key]
    g = f
    if any(isinstance(c, ast.Call) and plain_helper(p, f, c) is not None and plain_helper(p, f, c).name not in keep for c in walk_self(f.node)):
        node = _copy.deepcopy(f.node)
        body, ch = _inline_block(p, f, node.body, 0, (f.qual,), [0], keep)
        if ch:
            node.body = body
            ast.fix_missing_locations(node)
            g = Func(node, f.qual, f.module, f.cls, f.parent)
            g.nested = f.nested
            g.origin = f
    cache[key] = g
    return g


def same_names(f: Func, base: str) -> Set[str]:
    """`base` and the locals that are only ever bound to it (transitively): other names of the same object (a local bound to
    a parameter, the renamed parameter of an inlined helper)."""
    names = {base}
    while True:
        more = _aliases(f, lambda e: isinstance(e, ast.Name) and e.id in names) - names
        if not more:
            return names
        names |= more


def attr_in(e, bases: Set[str], attrs) -> bool:
    return isinstance(e, ast.Attribute) and e.attr in attrs and isinstance(e.value, ast.Name) and e.value.id in bases


def method_of(f: Func, bases: Set[str], attr: str):
    """predicate: `<base>.<attr>` or a local that is only ever bound to it (a bound method held in a local IS the method)"""
    al = _aliases(f, lambda e: attr_in(e, bases, (attr,)))
    return lambda e: attr_in(e, bases, (attr,)) or (isinstance(e, ast.Name) and e.id in al)


def stable_locals(f: Func) -> Dict[str, ast.AST]:
    """once-bound locals whose value can be re-read wherever the local is read: it is built from constants, parameters that
    are never rebound, module-level names and other such locals only (no call except len/str/isinstance/hasattr, no attribute
    that is assigned in the function)."""
    cache = f.__dict__.setdefault('_c04_stable', None)
    if cache is not None:
        return cache
    ob = once_bound(f)
    stores = {x.id for x in walk_self(f.node) if isinstance(x, ast.Name) and isinstance(x.ctx, (ast.Store, ast.Del))}
    attr_stores = {dotted(x) for x in walk_self(f.node) if isinstance(x, ast.Attribute) and isinstance(x.ctx, (ast.Store, ast.Del)) and dotted(x)}
    good: Dict[str, ast.AST] = {}

    in_loop: Set[str] = set()
    for lp in walk_self(f.node):
        if isinstance(lp, (ast.For, ast.AsyncFor, ast.While)):
            in_loop |= {x.id for x in ast.walk(lp) if isinstance(x, ast.Name) and isinstance(x.ctx, (ast.Store, ast.Del))}

    def ok(e, me) -> bool:
        for x in ast.walk(e):
            if isinstance(x, ast.Call):
                if not (isinstance(x.func, ast.Name) and x.func.id in ('len', 'str', 'isinstance', 'hasattr', 'bool')):
                    return False
            elif isinstance(x, ast.Attribute):
                if dotted(x) in attr_stores:
                    return False
            elif isinstance(x, (ast.Await, ast.Yield, ast.YieldFrom, ast.NamedExpr, ast.Lambda, ast.ListComp, ast.SetComp, ast.DictComp, ast.GeneratorExp)):
                return False
            elif isinstance(x, ast.Name) and isinstance(x.ctx, ast.Load) and x.id in stores:
                # another local: it must hold ONE value for the whole run of the function (bound once, outside every loop)
                if x.id == me or x.id not in ob or x.id in in_loop:
                    return False
        return True

    for k, v in ob.items():
        if k not in in_loop and ok(v, k):
            good[k] = v
    f.__dict__['_c04_stable'] = good
    return good


def subst_locals(f: Func, e, depth=0):
    """`e` with the stable once-bound locals it reads replaced by what they were bound to (a fresh expression)."""
    import copy as _copy
    sl = stable_locals(f)
    if depth > 3 or not any(isinstance(x, ast.Name) and isinstance(x.ctx, ast.Load) and x.id in sl for x in ast.walk(e)):
        return e

    class Sub(ast.NodeTransformer):
        def visit_Name(self, n):
            if isinstance(n.ctx, ast.Load) and n.id in sl:
                return ast.copy_location(subst_locals(f, _copy.deepcopy(sl[n.id]), depth + 1), n)
            return n

        def visit_Lambda(self, n):
            return n

    return ast.fix_missing_locations(Sub().visit(_copy.deepcopy(e)))


def local_atom(f: Func, atom):
    """An atom valuation that also reads a stable once-bound local as the test it was bound to
    (`bodiless = status in CODES` ... `if head or bodiless:`)."""
    sl = stable_locals(f)

    def wrapped(e, depth=0):
        v = atom(e)
        if v is None and isinstance(e, ast.Name) and e.id in sl and depth < 4:
            return eval3(sl[e.id], lambda x: wrapped(x, depth + 1))
        return v
    return wrapped


class Deref:
    """Reading ability 1, flow-sensitively: a local IS what it was bound to.  `norm(e, nid)` is the expression `e`
    (evaluated at CFG node nid) with every local replaced by the expression of its single reaching plain binding, when that
    expression can be re-read at nid with the same meaning: it is built from names, attribute chains, constants, displays,
    `+`, len()/str() only, every name in it has the same reaching definitions at nid as at the binding (nothing was rebound
    in between), and no attribute chain in it is assigned anywhere in the function.  `hdrs = resp._headers`,
    `size = len(data)`, `payload = data`, `key = 'content-length'`, `normalise = code_to_http_status` are looked through;
    the result of a call is not."""

    def __init__(self, cfg, ix: Index):
        self.cfg, self.ix = cfg, ix
        self._attr_stores = {dotted(x) for x in walk_self(cfg.func.node)
                             if isinstance(x, ast.Attribute) and isinstance(x.ctx, (ast.Store, ast.Del)) and dotted(x)}

    def _pure(self, e) -> bool:
        if isinstance(e, (ast.Constant, ast.Name)):
            return True
        if isinstance(e, ast.Attribute):
            d = dotted(e)
            return d is not None and d not in self._attr_stores and self._pure(e.value)
        if isinstance(e, (ast.Tuple, ast.List)):
            return all(self._pure(x) for x in e.elts)
        if isinstance(e, ast.BinOp) and isinstance(e.op, ast.Add):
            return self._pure(e.left) and self._pure(e.right)
        if isinstance(e, ast.Call) and isinstance(e.func, ast.Name) and e.func.id in ('len', 'str') and len(e.args) == 1 and not e.keywords:
            return self._pure(e.args[0])
        return False

    def value(self, nid: int, name: str) -> Optional[Tuple[ast.AST, int]]:
        ds = self.ix.defs_reaching(nid, name)
        if len(ds) != 1 or ds[0] == self.cfg.entry:
            return None
        dv = def_value(self.cfg, ds[0], name)
        if dv[0] != 'expr' or dv[1] is None or not self._pure(dv[1]):
            return None
        if is_name(dv[1], name):
            return None
        for x in ast.walk(dv[1]):
            if isinstance(x, ast.Name) and self.ix.defs_reaching(nid, x.id) != self.ix.defs_reaching(ds[0], x.id):
                return None
        return dv[1], ds[0]

    def norm(self, e, nid: int, depth=0):
        import copy as _copy
        me = self

        class Sub(ast.NodeTransformer):
            def visit_Name(self, n):
                if isinstance(n.ctx, ast.Load) and depth < 6:
                    got = me.value(nid, n.id)
                    if got is not None:
                        return ast.copy_location(me.norm(got[0], got[1], depth + 1), n)
                return n

            def visit_Lambda(self, n):
                return n

        return ast.fix_missing_locations(Sub().visit(_copy.deepcopy(e)))


def _str_tuple(v) -> Optional[List[str]]:
    if isinstance(v, (tuple, list)) and v and all(isinstance(x, str) for x in v):
        return list(v)
    return None


def _offer_parts(p, f: Func, e, depth=0, env=None) -> List[Tuple[str, ast.AST, Func, Optional[List[List[str]]]]]:
    """The list handed to the negotiation, flattened into its concatenated parts, whatever builds it - `+`, starred
    displays, list()/tuple(), a local bound to any of these, a module-level / same-class helper that returns it, a
    module-level constant tuple: ('types', expr, function holding expr, alternatives: the constant lists of media
    types the part can be) | ('other', expr, function, None)."""
    if depth > 8:
        raise UnknownIdiom('%s: offered media types are built too deeply: %s' % (f.qual, short(e)))
    # env: inside a helper that was looked through, parameter -> (argument expression, caller, caller's env)
    if isinstance(e, ast.Name) and env and e.id in env and not any(
            isinstance(x, ast.Name) and x.id == e.id and isinstance(x.ctx, (ast.Store, ast.Del)) for x in ast.walk(f.node)):
        arg, caller, cenv = env[e.id]
        return _offer_parts(p, caller, arg, depth + 1, cenv)

    def as_types(alts_of, expr):
        """several ways to the same part (conditional / several bindings / several returns): all constant lists"""
        if alts_of and all(len(a) == 1 and a[0][0] == 'types' for a in alts_of):
            return [('types', expr, f, [x for a in alts_of for x in a[0][3]])]
        return None

    if isinstance(e, ast.BinOp) and isinstance(e.op, ast.Add):
        return _offer_parts(p, f, e.left, depth + 1, env) + _offer_parts(p, f, e.right, depth + 1, env)
    if isinstance(e, ast.Call) and isinstance(e.func, ast.Name) and e.func.id in ('list', 'tuple') and len(e.args) == 1 and not e.keywords:
        return _offer_parts(p, f, e.args[0], depth + 1, env)
    if isinstance(e, (ast.List, ast.Tuple)) and any(isinstance(x, ast.Starred) for x in e.elts):
        out: List[Tuple[str, ast.AST, Func, Optional[List[List[str]]]]] = []
        for x in e.elts:
            if isinstance(x, ast.Starred):
                out.extend(_offer_parts(p, f, x.value, depth + 1, env))
            else:
                out.extend(_offer_parts(p, f, ast.List(elts=[x], ctx=ast.Load()), depth + 1, env))
        return out
    if isinstance(e, (ast.List, ast.Tuple)) and e.elts:
        vs = [fold_in(p, f, x) for x in e.elts]
        if all(isinstance(v, str) for v in vs):
            return [('types', e, f, [vs])]
    if isinstance(e, ast.IfExp):
        got = as_types([_offer_parts(p, f, e.body, depth + 1, env), _offer_parts(p, f, e.orelse, depth + 1, env)], e)
        return got or [('other', e, f, None)]
    if isinstance(e, ast.Name) and e.id not in f.params():
        binds = []
        for n in walk_self(f.node):
            if isinstance(n, ast.Assign) and any(is_name(t, e.id) for t in n.targets):
                binds.append(n.value)
            elif isinstance(n, ast.AnnAssign) and is_name(n.target, e.id) and n.value is not None:
                binds.append(n.value)
            elif isinstance(n, (ast.AugAssign, ast.For, ast.AsyncFor, ast.NamedExpr)) and any(is_name(x, e.id) for x in ast.walk(n.target)):
                raise UnknownIdiom('%s: offered media types %s are rebound by %s' % (f.qual, e.id, short(n)))
            elif isinstance(n, ast.Call) and isinstance(n.func, ast.Attribute) and is_name(n.func.value, e.id) \
                    and n.func.attr in ('insert', 'sort', 'reverse', 'pop', 'remove', 'clear', '__setitem__'):
                raise UnknownIdiom('%s: offered media types %s are reordered in place by %s' % (f.qual, e.id, short(n)))
        if len(binds) == 1:
            return _offer_parts(p, f, binds[0], depth + 1, env)
        if len(binds) > 1:
            # `if <option>: types = [...] / else: types = [...]`: a conditional list of types
            got = as_types([_offer_parts(p, f, b, depth + 1, env) for b in binds], e)
            if got:
                return got
            raise UnknownIdiom('%s: offered media types %s have %d bindings' % (f.qual, e.id, len(binds)))
    if isinstance(e, (ast.Name, ast.Attribute)):
        # a module-level / class-level constant sequence of media types is its value
        vs = _str_tuple(fold_in(p, f, e))
        if vs is not None:
            return [('types', e, f, [vs])]
    if isinstance(e, ast.Call):
        g = plain_helper(p, f, e)
        bound = bind_args(g, e) if g is not None and not g.is_async else None
        if bound is not None:
            genv = {k: (v, f, env) for k, v in bound.items()}
            rets = [r for r in walk_self(g.node) if isinstance(r, ast.Return) and r.value is not None]
            if len(rets) == 1:
                return _offer_parts(p, g, rets[0].value, depth + 1, genv)
            if rets:
                got = as_types([_offer_parts(p, g, r.value, depth + 1, genv) for r in rets], e)
                if got:
                    return got
                raise UnknownIdiom('%s: offered media types are built by %s, which has %d returns' % (f.qual, g.qual, len(rets)))
    return [('other', e, f, None)]


def _negotiation_rule(run, ser: Func):
    """The media type the default serializer renders with is the answer of `req.client_prefers(<predefined types first>)`
    on every path; the only shortcut is exact equality of the Accept text with a constant that the negotiation provably
    maps to the first predefined type."""
    p = run.project
    cfg = cfg_of(ser, p)
    run.use_cfg(cfg)
    ix = Index(cfg)
    reqn = param_at(ser, 0, 'req')
    jmod = p.module('falcon.constants')
    if 'MEDIA_JSON' not in jmod.consts:
        raise AnchorError('falcon.constants.MEDIA_JSON not found')
    json_type = p.fold(jmod, jmod.consts['MEDIA_JSON'])
    if not isinstance(json_type, str):
        raise UnknownIdiom('falcon.constants.MEDIA_JSON is not a constant string')
    negs = [c for c in walk_self(ser.node) if isinstance(c, ast.Call) and isinstance(c.func, ast.Attribute)
            and c.func.attr == 'client_prefers' and is_name(c.func.value, reqn)]
    offer_of: Dict[int, Tuple[Func, ast.AST, Optional[dict]]] = {}
    for c in negs:
        if len(c.args) != 1 or c.keywords:
            raise UnknownIdiom('%s: negotiation call %s' % (ser.qual, short(c)))
        offer_of[id(c)] = (ser, c.args[0], None)
    # the negotiation call moved into a module-level helper that is handed the request: the helper call is the negotiation
    for c in walk_self(ser.node):
        if not (isinstance(c, ast.Call) and (any(is_name(a, reqn) for a in c.args) or any(is_name(k.value, reqn) for k in c.keywords))):
            continue
        g = plain_helper(p, ser, c)
        bound = bind_args(g, c) if g is not None and not g.is_async else None
        if bound is None:
            continue
        prm = [k for k, v in bound.items() if is_name(v, reqn)]
        inner = [x for x in walk_self(g.node) if isinstance(x, ast.Call) and isinstance(x.func, ast.Attribute) and x.func.attr == 'client_prefers'
                 and isinstance(x.func.value, ast.Name) and x.func.value.id in prm]
        if not inner:
            continue
        if len(prm) != 1 or len(inner) != 1 or len(inner[0].args) != 1 or inner[0].keywords or any(
                isinstance(x, ast.Name) and x.id == prm[0] and isinstance(x.ctx, (ast.Store, ast.Del)) for x in ast.walk(g.node)):
            raise UnknownIdiom('%s: %s negotiates more than once / is handed the request twice' % (ser.qual, g.qual))
        # the helper IS the negotiation block: each `return <e>` is judged like `<negotiated type> = <e>` of the inlined
        # block, on the helper's own paths (`return None`: nothing acceptable, the caller renders no body)
        gcfg = cfg_of(g, p)
        run.use_cfg(gcfg)
        _negotiated_paths(run, g, gcfg, Index(gcfg), prm[0], inner, json_type, returns=True)
        negs.append(c)
        offer_of[id(c)] = (g, inner[0].args[0], {k: (v, ser, None) for k, v in bound.items()})
    if not negs:
        raise AnchorError('%s: no %s.client_prefers(...) negotiation call' % (ser.qual, reqn))
    # (1) what is offered, in which order
    for c in negs:
        ofn, oexpr, oenv = offer_of[id(c)]
        parts = _offer_parts(p, ofn, oexpr, 0, oenv)
        typed = [i for i, part in enumerate(parts) if part[0] == 'types']
        if not typed:
            raise UnknownIdiom('%s: no literal list of predefined media types in %s' % (ser.qual, short(oexpr)))
        run.check(typed[0] == 0, 'the default error serializer offers the predefined media types before the registered handlers '
                                 '(an equal match goes to the first one offered)', ser, 'offered: ' + short(oexpr), where=ser.loc(c),
                  runtime_witness='Accept: */* (or no Accept header) with a registered handler listed first: the error is no longer JSON')
        alts = [a for i in typed[:1] for a in parts[i][3]]
        bad = [a for a in alts if a[0] != json_type]
        run.check(not bad, 'JSON is the first of the predefined media types the default error serializer offers', ser,
                  'predefined: ' + short(parts[typed[0]][1]), where=parts[typed[0]][2].loc(parts[typed[0]][1]),
                  runtime_witness='Accept: application/json, application/xml (equal weight): the error is rendered as %s' % (bad[0][0] if bad else ''))
    _negotiated_paths(run, ser, cfg, ix, reqn, negs, json_type)


def _negotiated_paths(run, f: Func, cfg, ix: Index, reqn: str, negs, json_type: str, returns: bool = False):
    """Clauses (2)-(4) of the negotiation rule over one function: the serializer itself, or (returns=True) a helper
    that holds the negotiation block and hands the selected type back - there `return <e>` is what `<type> = <e>` is in
    the serializer, read on the helper's own CFG paths."""
    p = run.project
    neg_nodes = _call_nodes(ix, negs)
    # (2) no Accept-text test selects a type without the negotiation
    tx = _AcceptText(p, f, reqn)
    accepted = {CATCH_ALL_RANGE, json_type}
    unreadable: List[ast.AST] = []
    other = tx.atom_other(accepted, unreadable)
    gen = pruned(cfg, other, flow.no_exc)
    bypass = flow.find_path(cfg, [cfg.entry], [cfg.exit], avoid_nodes=neg_nodes, edge_filter=gen)
    offending = []
    if bypass is not None:
        fwd = flow.reachable(cfg, [cfg.entry], avoid_nodes=neg_nodes, edge_filter=gen)
        for n in cfg.live_nodes():
            if n.kind != 'test' or n.id not in fwd or not tx.mentions(n.ast) or eval3(n.ast, other) is not None:
                continue
            # the test decides it: one outcome can still reach the negotiation, the other one only the exit
            outs = [y for (y, l) in cfg.succ[n.id] if l in ('T', 'F')]
            to_neg = [bool(flow.reachable(cfg, [y], edge_filter=gen) & set(neg_nodes)) for y in outs]
            skips = [y for y, tn in zip(outs, to_neg) if not tn
                     and flow.find_path(cfg, [y], [cfg.exit], avoid_nodes=neg_nodes, edge_filter=gen) is not None]
            if not (skips and any(to_neg)):
                continue
            for leaf in _leaves(n.ast):
                if not tx.mentions(leaf) or eval3(leaf, other) is not None:
                    continue
                if tx.classify(leaf) is None:
                    raise UnknownIdiom('%s: test of the Accept text %s' % (f.qual, short(leaf)))
                if any(leaf is u for u in unreadable):
                    raise UnknownIdiom('%s: comparison of a transformed (case-folded / stripped) Accept text %s' % (f.qual, short(leaf)))
                offending.append((n, leaf))
        if not offending:
            raise UnknownIdiom('%s: the negotiation call is skipped under a condition that is not a test of the Accept header: %s'
                               % (f.qual, '; '.join(flow.describe_path(cfg, bypass)[:6])))
    for n, leaf in offending:
        run.fail('the media type of a default error response is decided by req.client_prefers() for every Accept header: a prefix / '
                 'substring / non-catch-all comparison of the Accept text must not select a type instead', f, leaf,
                 where='%s:%s' % (f.file, n.lineno), witness=flow.describe_path(cfg, bypass),
                 runtime_witness="Accept: application/json;q=0.2, application/xml (or application/json;q=0): the q-values are never "
                                 "looked at and the error is rendered in the type the text test picked")
    if not offending:
        run.ok('every path of the default error serializer negotiates through req.client_prefers() unless the Accept text equals a '
               'catch-all constant', f.loc(negs[0]), negs[0])
    # (3) the exact-equality shortcuts select what the negotiation would: the first predefined type
    pref: Set[str] = set()
    for n in walk_self(f.node):
        if isinstance(n, ast.Assign) and any(n.value is c for c in negs):
            pref.update(t.id for t in n.targets if isinstance(t, ast.Name))
        elif isinstance(n, (ast.AnnAssign, ast.NamedExpr)) and any(n.value is c for c in negs) and isinstance(n.target, ast.Name):
            pref.add(n.target.id)

    for _ in range(4):
        for n in walk_self(f.node):
            if isinstance(n, ast.Assign) and isinstance(n.value, ast.Name) and n.value.id in pref:
                pref.update(t.id for t in n.targets if isinstance(t, ast.Name))

    def pref_assign(n):
        a = n.ast
        if n.kind != 'stmt':
            return None
        if isinstance(a, ast.Assign) and any(isinstance(t, ast.Name) and t.id in pref for t in a.targets):
            return a.value
        if isinstance(a, ast.AnnAssign) and isinstance(a.target, ast.Name) and a.target.id in pref and a.value is not None:
            return a.value
        if returns and isinstance(a, ast.Return):
            # the helper's answer: `return <e>` selects <e>, a bare `return` selects nothing (None)
            return a.value if a.value is not None else ast.copy_location(ast.Constant(value=None), a)
        return None

    for c in sorted(accepted):
        filt = pruned(cfg, tx.atom_const(c), flow.no_exc)
        if flow.find_path(cfg, [cfg.entry], [cfg.exit], avoid_nodes=neg_nodes, edge_filter=filt) is None:
            continue
        if not pref and not returns:
            raise UnknownIdiom('%s: the result of the negotiation call is not bound to a local' % f.qual)
        fwd = flow.reachable(cfg, [cfg.entry], avoid_nodes=neg_nodes, edge_filter=filt)
        sets = []
        for n in cfg.live_nodes():
            v = pref_assign(n) if n.id in fwd else None
            if v is None or flow.find_path(cfg, [n.id], [cfg.exit], avoid_nodes=neg_nodes, edge_filter=filt) is None:
                continue
            val = p.fold(f.module, v, None, f)
            if val is UNKNOWN:
                raise UnknownIdiom('%s: shortcut for Accept == %r selects %s' % (f.qual, c, short(v)))
            sets.append(n.id)
            run.check(val == json_type, 'a shortcut taken when the Accept header is exactly %r selects what the negotiation would: the first '
                                        'predefined type' % c, f, n.ast, where='%s:%s' % (f.file, n.lineno),
                      runtime_witness='Accept: %s is answered with %r instead of %s' % (c, val, json_type))
        hole = flow.find_path(cfg, [cfg.entry], [cfg.exit], avoid_nodes=set(neg_nodes) | set(sets), edge_filter=filt)
        if hole is not None:
            raise UnknownIdiom('%s: when Accept == %r neither the negotiation nor an assignment of %s is on the path: %s'
                               % (f.qual, c, '/'.join(sorted(pref) + ['a return'] * returns), '; '.join(flow.describe_path(cfg, hole)[:6])))
    # (4) after the negotiation its answer is replaced only when it found nothing
    if pref or returns:
        is_pref = lambda e: (isinstance(e, ast.Name) and e.id in pref) or (  # noqa: E731
            isinstance(e, ast.NamedExpr) and isinstance(e.target, ast.Name) and e.target.id in pref)

        def found(e):
            """valuation when the negotiation found a type (a non-empty string)"""
            if is_pref(e):
                return True
            pol = none_test(e, is_pref)
            if pol is not None:
                return not pol
            if isinstance(e, ast.Compare) and len(e.ops) == 1 and isinstance(e.ops[0], (ast.Eq, ast.NotEq)) and is_pref(e.left) \
                    and p.fold(f.module, e.comparators[0], None, f) == '':
                return isinstance(e.ops[0], ast.NotEq)
            return None

        after = flow.reachable(cfg, [y for nn in neg_nodes for (y, l) in cfg.succ[nn] if l != 'exc'], edge_filter=flow.no_exc)
        for n in cfg.live_nodes():
            v = pref_assign(n) if n.id in after and n.id not in neg_nodes else None
            if v is None or (isinstance(v, ast.Constant) and v.value is None) or is_pref(v):
                continue
            facts = ix.facts(n.id)
            for (t, _tr) in facts:
                for leaf in _leaves(t):
                    if any(is_pref(x) for x in ast.walk(leaf)) and found(leaf) is None and not (
                            isinstance(leaf, ast.Compare) and len(leaf.ops) == 1 and isinstance(leaf.ops[0], (ast.Eq, ast.NotEq))
                            and p.fold(f.module, leaf.comparators[0], None, f) is not UNKNOWN and is_pref(leaf.left)):
                        raise UnknownIdiom('%s: test of the negotiated media type %s' % (f.qual, short(leaf)))
            run.check(refuted(facts, found),
                      'after the negotiation the selected media type is replaced only when the negotiation found none', f, n.ast,
                      where='%s:%s' % (f.file, n.lineno),
                      runtime_witness='an Accept header the negotiation answers with one type is served another one')


# ---------------------------------------------------------------------------
# R4 (g) the text put into the error document is the field value itself
# ---------------------------------------------------------------------------

from .c15_helpers import Origin, Provenance  # noqa: E402

# XML 1.0 (fifth edition) production [2] Char: the code points a document can carry at all
XML_CHAR_RANGES = ((0x9, 0xA), (0xD, 0xD), (0x20, 0xD7FF), (0xE000, 0xFFFD), (0x10000, 0x10FFFF))
# a JSON document (and the dict handed to a custom serializer) carries every Unicode scalar value
ANY_CHAR_RANGES = ((0x0, 0xD7FF), (0xE000, 0x10FFFF))
CHAR_PROBES = ('\t', '\n', '\r', ' ', '\ud7ff', '\ue000', '\ufffd', '\U00010000', '\U0001f600', '\U0010ffff')
_ALPHABETS: Dict[tuple, str] = {}


def _alphabet(ranges) -> str:
    if ranges not in _ALPHABETS:
        _ALPHABETS[ranges] = ''.join(''.join(map(chr, range(lo, hi + 1))) for lo, hi in ranges)
    return _ALPHABETS[ranges]


def _carried(ranges, ch: str) -> bool:
    return any(lo <= ord(ch) <= hi for lo, hi in ranges)


def _is_char_class(pattern: str, flags: int) -> bool:
    """The pattern is one character class / literal (optionally grouped, alternated, repeated at least once): it matches
    some text iff it matches one of that text's characters."""
    try:
        from re import _parser as sre            # Python >= 3.11
    except ImportError:                           # pragma: no cover
        import sre_parse as sre
    try:
        from re import _constants as C
    except ImportError:                           # pragma: no cover
        import sre_constants as C
    repeats = tuple(x for x in (getattr(C, n, None) for n in ('MAX_REPEAT', 'MIN_REPEAT', 'POSSESSIVE_REPEAT')) if x is not None)

    def one(items) -> bool:
        items = list(items)
        if len(items) != 1:
            return False
        op, av = items[0]
        if op in (C.IN, C.LITERAL, C.NOT_LITERAL, C.ANY):
            return True
        if op in repeats:
            return av[0] >= 1 and one(av[2])
        if op is C.SUBPATTERN:
            return one(av[-1])
        if op is C.BRANCH:
            return all(one(alt) for alt in av[1])
        return False

    try:
        return one(sre.parse(pattern, flags))
    except Exception:  # noqa: BLE001
        return False


class _FieldText(Provenance):
    """Provenance of a text relative to the error's own fields: `self.<field>`, `getattr(self, <name>)` and a component
    `self.<field>[<key>]` of a structured field (link) are the roots.  On top of the C15 tables it READS the three
    filters whose effect depends on constants: `<compiled regex>.sub(...)` / `re.sub(...)` (also through
    functools.partial), `.replace(<const>, <const>)` and `.translate(<constant table>)` - each is the identity on every
    text the document format can carry iff it touches none of the format's characters."""

    kind = str          # the type of the tracked value (patterns, replacements and `replace` arguments have it too)

    def __init__(self, p, f: Func, ranges, doc: str):
        Provenance.__init__(self, p, f, 'self')
        self.ranges, self.doc = ranges, doc

    # -- roots
    def _is_field(self, e) -> bool:
        if isinstance(e, ast.Attribute) and is_name(e.value, 'self'):
            return True
        return (isinstance(e, ast.Call) and self._q(e.func) == 'builtins.getattr' and len(e.args) >= 2 and is_name(e.args[0], 'self'))

    def classify(self, e, nid: int) -> Origin:
        if self._is_field(e):
            return Origin(True)
        if isinstance(e, ast.Subscript) and not isinstance(e.slice, ast.Slice):
            # `<field>[<key>]`: a component of a structured field (link['href']); an integer index picks a character
            k = e.slice
            if isinstance(k, ast.UnaryOp):
                k = k.operand
            if not (isinstance(k, ast.Constant) and isinstance(k.value, int)):
                base = self.classify(e.value, nid)
                if base.identical:
                    return base
        # spellings of str(x)
        if isinstance(e, ast.JoinedStr) and len(e.values) == 1 and isinstance(e.values[0], ast.FormattedValue) \
                and e.values[0].conversion in (-1, 115) and e.values[0].format_spec is None:
            return self.classify(e.values[0].value, nid)
        if isinstance(e, ast.BinOp) and isinstance(e.op, ast.Mod) and isinstance(e.left, ast.Constant) and e.left.value == '%s' \
                and not isinstance(e.right, (ast.Tuple, ast.Dict)):
            return self.classify(e.right, nid)
        if isinstance(e, ast.Call) and isinstance(e.func, ast.Attribute) and e.func.attr == 'format' and isinstance(e.func.value, ast.Constant) \
                and e.func.value.value in ('{}', '{0}', '{!s}', '{0!s}') and len(e.args) == 1 and not e.keywords and not isinstance(e.args[0], ast.Starred):
            return self.classify(e.args[0], nid)
        # `<field> or ''`: the field itself for every str (None and '' both give an empty element)
        if isinstance(e, ast.BoolOp) and isinstance(e.op, ast.Or) and len(e.values) == 2 and isinstance(e.values[1], ast.Constant) \
                and e.values[1].value in ('', None):
            return self.classify(e.values[0], nid)
        return Provenance.classify(self, e, nid)

    # -- constants behind names
    def _value_of(self, e, nid: int, module=None, depth=0):
        """Follow a local with one reaching definition / a module constant to the expression that defines it."""
        module = module or self.f.module
        if depth > 4 or not isinstance(e, (ast.Name, ast.Attribute)):
            return e, module
        if isinstance(e, ast.Name) and module is self.f.module:
            ds = self.rd.at(nid, e.id) if nid is not None else []
            if ds:
                if len(ds) == 1 and ds[0].kind == 'assign':
                    return self._value_of(ds[0].value, ds[0].node, module, depth + 1)
                return e, module
        q = self.p.resolve_expr(module, e, self.f if module is self.f.module else None)
        if q:
            head, _, tail = q.rpartition('.')
            m = self.p.modules.get(head)
            if m is not None and tail in m.consts:
                return self._value_of(m.consts[tail], None, m, depth + 1)
        return e, module

    def _const(self, e, nid, what: str, c):
        v, m = self._value_of(e, nid)
        val = self.p.fold(m, v, None, self.f if m is self.f.module else None)
        if val is UNKNOWN:
            raise UnknownIdiom('%s: %s of %s is not a constant' % (self.f.qual, what, short(c)))
        return val

    def _flags(self, e, module) -> int:
        if isinstance(e, ast.BinOp) and isinstance(e.op, ast.BitOr):
            return self._flags(e.left, module) | self._flags(e.right, module)
        if isinstance(e, ast.Constant) and isinstance(e.value, int):
            return e.value
        q = self.p.resolve_expr(module, e, None) or ''
        v = getattr(re, q[3:], None) if q.startswith('re.') else None
        if not isinstance(v, int):
            raise UnknownIdiom('%s: regex flags %s' % (self.f.qual, short(e)))
        return int(v)

    def _compiled(self, e, nid):
        """-> (pattern text, flags) when e denotes `re.compile(<constant>[, flags])`."""
        v, m = self._value_of(e, nid)
        if not (isinstance(v, ast.Call) and (self.p.resolve_expr(m, v.func, None) == 're.compile') and v.args):
            return None
        fl = [a for a in v.args[1:2]] + [k.value for k in v.keywords if k.arg == 'flags']
        if len(v.args) > 2 or any(k.arg != 'flags' for k in v.keywords):
            raise UnknownIdiom('%s: %s' % (self.f.qual, short(v)))
        pat = self.p.fold(m, v.args[0])
        if not isinstance(pat, self.kind):
            raise UnknownIdiom('%s: pattern of %s is not a constant %s' % (self.f.qual, short(v), self.kind.__name__))
        return pat, sum(self._flags(x, m) for x in fl[:1])

    # -- filters
    def _touched(self, pattern, flags: int, c) -> Optional[str]:
        """What of the document alphabet a match of the pattern contains (as a phrase), None when provably nothing."""
        ch = self._touched_char(pattern, flags, c)
        return None if ch is None else 'U+%04X, a character %s documents carry' % (ord(ch), self.doc)

    def _occurs(self, piece) -> bool:
        """Can the non-empty constant `piece` occur in a text the document carries?"""
        return all(_carried(self.ranges, ch) for ch in piece)

    def _touched_char(self, pattern: str, flags: int, c) -> Optional[str]:
        """A character of the document alphabet that a match of the pattern contains, None when provably none."""
        try:
            rx = re.compile(pattern, flags)
        except re.error as e:
            raise UnknownIdiom('%s: pattern %r does not compile: %s' % (self.f.qual, pattern, e))
        for ch in CHAR_PROBES:
            m = rx.search(ch) if _carried(self.ranges, ch) else None
            if m is not None and m.group():
                return ch
        if rx.fullmatch('') is not None:
            raise UnknownIdiom('%s: pattern %r of %s also matches the empty string' % (self.f.qual, pattern, short(c)))
        m = rx.search(_alphabet(self.ranges))
        if m is not None:
            return m.group()[0]
        if not _is_char_class(pattern, flags):
            raise UnknownIdiom('%s: pattern %r of %s is not a single character class' % (self.f.qual, pattern, short(c)))
        return None

    def _regex_sub(self, c: ast.Call, nid: int) -> Optional[Origin]:
        fn, args = c.func, list(c.args)
        if isinstance(fn, ast.Name):
            v, m = self._value_of(fn, nid)
            if isinstance(v, ast.Call) and m is self.f.module and self._q(v.func) == 'functools.partial' and v.args:
                if v.keywords or any(isinstance(a, ast.Starred) for a in v.args):
                    raise UnknownIdiom('%s: %s' % (self.f.qual, short(v)))
                fn, args = v.args[0], list(v.args[1:]) + args
        if not (isinstance(fn, ast.Attribute) and fn.attr == 'sub'):
            return None
        if self._q(fn) == 're.sub':
            if len(args) != 3 or c.keywords:
                raise UnknownIdiom('%s: arguments of %s' % (self.f.qual, short(c)))
            pat = self._const(args[0], nid, 'pattern', c)
            if not isinstance(pat, self.kind):
                raise UnknownIdiom('%s: pattern of %s' % (self.f.qual, short(c)))
            rx, repl, subject = (pat, 0), args[1], args[2]
        else:
            rx = self._compiled(fn.value, nid)
            if rx is None:
                return None
            if len(args) != 2 or c.keywords:
                raise UnknownIdiom('%s: arguments of %s' % (self.f.qual, short(c)))
            repl, subject = args
        origin = self.classify(subject, nid)
        if not origin.derived:
            return Origin()
        r = self._const(repl, nid, 'replacement', c)
        if not isinstance(r, self.kind) or ('\\' if self.kind is str else b'\\') in r:
            raise UnknownIdiom('%s: replacement of %s' % (self.f.qual, short(c)))
        hit = self._touched(rx[0], rx[1], c)
        if hit is None:
            return origin
        return origin.step('rewrite', c, 'the pattern %s matches %s: it is %s' % (ascii(rx[0]), hit, 'deleted' if not r else 'replaced by %r' % r))

    def _text_method(self, c: ast.Call, nid: int) -> Optional[Origin]:
        fn = c.func
        if not (isinstance(fn, ast.Attribute) and fn.attr in ('replace', 'translate') and self._q(fn) is None):
            return None
        recv = self.classify(fn.value, nid)
        if not recv.derived:
            return None
        if c.keywords or any(isinstance(a, ast.Starred) for a in c.args):
            raise UnknownIdiom('%s: arguments of %s' % (self.f.qual, short(c)))
        if fn.attr == 'replace':
            if len(c.args) != 2:
                raise UnknownIdiom('%s: arguments of %s' % (self.f.qual, short(c)))
            old, new = (self._const(a, nid, 'argument', c) for a in c.args)
            if not (isinstance(old, self.kind) and isinstance(new, self.kind)):
                raise UnknownIdiom('%s: arguments of %s' % (self.f.qual, short(c)))
            if old == new or (old and not self._occurs(old)):
                return recv         # no text the document can carry contains `old`
            return recv.step('rewrite', c, '%s occurs in texts %s documents carry' % (ascii(old), self.doc))
        if len(c.args) != 1 or self.kind is not str:
            raise UnknownIdiom('%s: arguments of %s' % (self.f.qual, short(c)))
        v, m = self._value_of(c.args[0], nid)
        table = None
        if isinstance(v, ast.Call) and self.p.resolve_expr(m, v.func, None) in ('builtins.str.maketrans',) and not v.keywords:
            vals = [self.p.fold(m, a) for a in v.args]
            if all(isinstance(x, (str, dict)) for x in vals):
                try:
                    table = str.maketrans(*vals)
                except (TypeError, ValueError):
                    table = None
        else:
            t = self.p.fold(m, v)
            if isinstance(t, dict) and all(isinstance(k, int) or (isinstance(k, str) and len(k) == 1) for k in t):
                table = {(k if isinstance(k, int) else ord(k)): x for k, x in t.items()}
        if table is None:
            raise UnknownIdiom('%s: translation table of %s is not a readable constant' % (self.f.qual, short(c)))
        hit = sorted(k for k, x in table.items() if 0 <= k <= 0x10FFFF and _carried(self.ranges, chr(k)) and x != k and x != chr(k))
        if not hit:
            return recv
        return recv.step('rewrite', c, 'the table maps U+%04X, a character %s documents carry, to %r' % (hit[0], self.doc, table[hit[0]]))

    def _call(self, c: ast.Call, nid: int) -> Origin:
        for reader in (self._regex_sub, self._text_method):
            r = reader(c, nid)
            if r is not None:
                return r
        return Provenance._call(self, c, nid)


def _document_text_rule(run, f: Func, doc: str):
    """R4 (g): the text stored into each element of the XML error document (each value of the dict JSON is made from) is
    the corresponding field value itself, or its str(): no substitution, filtering, truncation, case or whitespace
    change on the way - except one that provably touches no character the document format can carry (for XML: outside
    production [2] Char).  Witness: HTTPError(title='Payment failed \\U0001F4B3') negotiated as XML with a filter
    [^\\t\\n\\r\\x20-\\ud7ff\\ue000-\\ufffd]: the client reads 'Payment failed ' while JSON keeps the emoji."""
    p = run.project
    ranges = XML_CHAR_RANGES if doc == 'XML' else ANY_CHAR_RANGES
    prov = _FieldText(p, f, ranges, doc)
    sinks = []
    for n in walk_self(f.node):
        if not isinstance(n, ast.Assign):
            continue
        for t in n.targets:
            if doc == 'XML' and isinstance(t, ast.Attribute) and t.attr in ('text', 'tail') and not is_name(t.value, 'self'):
                sinks.append(n)
            elif doc == 'JSON' and isinstance(t, ast.Subscript) and isinstance(t.value, ast.Name) and t.value.id != 'self':
                sinks.append(n)
    n_fields = 0
    for n in sinks:
        nid = prov.rd.cfg_node(n.value)
        if nid is None:
            continue
        origin = prov.classify(n.value, nid)
        if not origin.derived:
            continue            # a constant / unrelated text: the sibling field-source comparison judges it
        n_fields += 1
        run.check(not origin.xforms, 'the %s error document carries each field value itself (only the serializer\'s own escaping '
                  'may change it)' % doc, f, origin.xforms[0][1] if origin.xforms else n, where=f.loc(n), witness=origin.describe() or None,
                  runtime_witness='an HTTPError whose title/description/link text contains the affected characters (e.g. an emoji, '
                                  'U+1F4B3): the %s body no longer says what the error says (and what the other format says)' % doc)
    if not n_fields:
        raise AnchorError('%s: no store of a field value into the %s document found' % (f.qual, doc))


# ---------------------------------------------------------------------------
# R4 (h) to_json serialises to_dict() WHOLE; (i) the public renderers return the serializer's bytes unchanged
# ---------------------------------------------------------------------------

# the bytes a UTF-8 encoded XML / JSON error document can contain: the encodings of these code points (JSON escapes the
# other C0 controls; U+FFFE/U+FFFF are JSON-only and add no new byte)
UTF8_DOC_RANGES = ((0x9, 0xA), (0xD, 0xD), (0x20, 0xD7FF), (0xE000, 0x10FFFF))
BYTE_PROBES = ('ß', '€', 'Ā', 'я', '中', '\U0001f4b3') + CHAR_PROBES
UTF8_NAMES = ('utf-8', 'utf8', 'utf_8', 'u8')
DICT_COPIES = ('builtins.dict', 'collections.OrderedDict', 'copy.copy', 'copy.deepcopy')
DICT_REMOVERS = ('pop', 'popitem', 'clear')
DICT_WRITERS = ('update', 'setdefault', '__setitem__', '__ior__')
# partition of what a member of the error dict can hold, for deciding a selection predicate
CELL_NONE, CELL_ZERO, CELL_EMPTY, CELL_TRUTHY = 'None', '0', "''", 'truthy'
_CELL_VALUE = {CELL_NONE: None, CELL_ZERO: 0, CELL_EMPTY: ''}


def _cell_compare(op, cell: str, const) -> Optional[bool]:
    """`<member value> <op> <const>` for a value in `cell` (None: not decided by the cell alone)."""
    if cell in _CELL_VALUE:
        v = _CELL_VALUE[cell]
        if isinstance(op, (ast.Is, ast.IsNot)):
            if const is not None:
                return None
            r = v is None
            return r if isinstance(op, ast.Is) else not r
        try:
            if isinstance(op, (ast.Eq, ast.NotEq)):
                return (v == const) == isinstance(op, ast.Eq)
            if isinstance(op, (ast.In, ast.NotIn)) and isinstance(const, (tuple, list, frozenset, set)):
                return (v in const) == isinstance(op, ast.In)
        except Exception:  # noqa: BLE001
            return None
        return None
    # a truthy value differs from every falsy constant; nothing is known about its relation to a truthy one
    if isinstance(op, (ast.In, ast.NotIn)) and isinstance(const, (tuple, list, frozenset, set)):
        if all(not x for x in const):
            return isinstance(op, ast.NotIn)
        return None
    if isinstance(const, (tuple, list, frozenset, set, dict)):
        return None
    if not const:
        if isinstance(op, (ast.Eq, ast.Is)):
            return False
        if isinstance(op, (ast.NotEq, ast.IsNot)):
            return True
    return None


class _Rendered(_FieldText):
    """Provenance of a value relative to ONE ROOT CALL inside the function (`self.to_dict()`, `self._to_xml()`,
    `<handler>.serialize(<doc>, ...)`): is what reaches the sink that call's result ITSELF?  Nothing else is tracked (no
    parameter is a root).  kind=dict reads the shapes that copy, select from or rebuild a mapping (comprehensions over
    `.items()` / the keys, dict(...)/copy, `{**d}`); kind=bytes reads regex / replace filters over the byte alphabet of a
    UTF-8 document and the decode/encode round trip.  Everything else that touches the root is UnknownIdiom."""

    def __init__(self, p, f: Func, is_root, doc: str, kind, members: Optional[Dict[str, bool]] = None):
        Provenance.__init__(self, p, f, None, root_local='<the root call>')
        self.ranges, self.doc, self.kind, self.is_root = UTF8_DOC_RANGES, doc, kind, is_root
        self.members = members or {}

    def _is_field(self, e) -> bool:
        return self.is_root(e)

    def classify_any(self, e, nid: int) -> Origin:
        out = Provenance.classify_any(self, e, nid)
        if any(self.is_root(x) for x in walk_self(e)):
            out = out.merge(Origin(True))
        return out

    def classify(self, e, nid: int) -> Origin:
        if self.is_root(e):
            return Origin(True)
        r = self._mapping_shape(e, nid) if self.kind is dict else (self._bytes_shape(e, nid) if self.kind is bytes else None)
        if r is not None:
            return r
        return Provenance.classify(self, e, nid)

    # ---- bytes
    def _codec(self, c: ast.Call) -> Tuple[Optional[str], Optional[str]]:
        """(codec, errors) of a `.decode(...)` / `.encode(...)` call; (None, None) when not constant."""
        vals = {'encoding': 'utf-8', 'errors': 'strict'}
        for name, a in list(zip(('encoding', 'errors'), c.args)) + [(k.arg, k.value) for k in c.keywords]:
            v = self.p.fold(self.f.module, a, None, self.f)
            if name not in vals or not isinstance(v, str):
                return None, None
            vals[name] = v
        return vals['encoding'].lower(), vals['errors']

    def _bytes_shape(self, e, nid: int) -> Optional[Origin]:
        if not isinstance(e, ast.Call):
            return None
        fn = e.func
        if self._q(fn) in ('builtins.bytes',) and len(e.args) == 1 and not e.keywords:
            return self.classify(e.args[0], nid)
        if isinstance(fn, ast.Attribute) and fn.attr in ('strip', 'lstrip', 'rstrip') and not e.args and not e.keywords \
                and self.classify(fn.value, nid).derived:
            raise UnknownIdiom('%s: %s - whether the serialized document can start / end with whitespace is not decided' % (self.f.qual, short(e)))
        # <doc>.decode(<utf-8>).encode(<codec>): the identity iff both sides are strict UTF-8
        if isinstance(fn, ast.Attribute) and fn.attr == 'encode' and isinstance(fn.value, ast.Call) and isinstance(fn.value.func, ast.Attribute) \
                and fn.value.func.attr == 'decode':
            inner = self.classify(fn.value.func.value, nid)
            if not inner.derived:
                return None
            dec, enc = self._codec(fn.value), self._codec(e)
            if dec[0] is None or enc[0] is None:
                raise UnknownIdiom('%s: codec of %s is not a constant' % (self.f.qual, short(e)))
            if dec[0] not in UTF8_NAMES:
                raise UnknownIdiom('%s: %s decodes the UTF-8 document with another codec' % (self.f.qual, short(e)))
            if enc[0] in UTF8_NAMES:
                return inner       # a well-formed document decodes (under any error policy) and re-encodes to the same bytes
            return inner.step('rewrite', e, 're-encoded as %s (errors=%s): the %s document declares / is read as UTF-8 and characters '
                                            'outside that codec are lost or substituted' % (enc[0], enc[1], self.doc))
        return None

    def _alphabet_bytes(self) -> bytes:
        return _alphabet(self.ranges).encode('utf-8')

    def _touched(self, pattern, flags: int, c) -> Optional[str]:
        if self.kind is not bytes:
            return _FieldText._touched(self, pattern, flags, c)
        try:
            rx = re.compile(pattern, flags)
        except (re.error, ValueError) as e:
            raise UnknownIdiom('%s: pattern %r does not compile: %s' % (self.f.qual, pattern, e))

        def phrase(ch, byte):
            if ord(ch) < 0x80:
                return 'the byte 0x%02X (U+%04X), which %s documents carry' % (byte, ord(ch), self.doc)
            return 'the byte 0x%02X of %s, the UTF-8 encoding of U+%04X (%s): a bytes pattern sees encoded bytes, not characters' % (
                byte, ascii(ch.encode('utf-8')), ord(ch), ascii(ch))
        for ch in BYTE_PROBES:
            m = rx.search(ch.encode('utf-8'))
            if m is not None and m.group():
                return phrase(ch, m.group()[0])
        if rx.fullmatch(b'') is not None:
            raise UnknownIdiom('%s: pattern %r of %s also matches the empty string' % (self.f.qual, pattern, short(c)))
        alpha = self._alphabet_bytes()
        m = rx.search(alpha)
        if m is not None:
            # the character whose encoding holds the first matched byte: lead / ASCII bytes up to there, counted
            idx = sum(1 for b in alpha[:m.start() + 1] if b & 0xC0 != 0x80) - 1
            ch = _alphabet(self.ranges)[idx]
            return phrase(ch, m.group()[0])
        if not _is_char_class(pattern, flags):
            raise UnknownIdiom('%s: pattern %r of %s is not a single byte class' % (self.f.qual, pattern, short(c)))
        return None

    def _occurs(self, piece) -> bool:
        if self.kind is not bytes:
            return _FieldText._occurs(self, piece)
        alpha = set(self._alphabet_bytes())
        if not all(b in alpha for b in piece):
            return False
        try:
            piece.decode('utf-8')
        except UnicodeDecodeError:
            raise UnknownIdiom('%s: whether the byte sequence %r can occur in a UTF-8 document is not decided' % (self.f.qual, piece))
        return True

    # ---- mappings
    def _pred(self, conds, is_key, is_val, key: str, cell: str) -> Optional[bool]:
        """Three-valued truth of the conjunction of comprehension conditions for the member `key` holding a value of `cell`."""
        fold = lambda x: self.p.fold(self.f.module, x, None, self.f)  # noqa: E731

        def atom(e):
            if is_val(e):
                return cell == CELL_TRUTHY
            if isinstance(e, ast.Call) and self._q(e.func) == 'builtins.bool' and len(e.args) == 1 and not e.keywords and is_val(e.args[0]):
                return cell == CELL_TRUTHY
            if isinstance(e, ast.Compare) and len(e.ops) == 1:
                left, op, right = e.left, e.ops[0], e.comparators[0]
                if (is_val(right) or is_key(right)) and isinstance(op, (ast.Eq, ast.NotEq, ast.Is, ast.IsNot)):
                    left, right = right, left
                if is_val(left) or is_key(left):
                    const = fold(right)
                    if const is UNKNOWN:
                        return None
                    if is_val(left):
                        return _cell_compare(op, cell, const)
                    if isinstance(op, (ast.Eq, ast.NotEq)):
                        return (key == const) == isinstance(op, ast.Eq)
                    if isinstance(op, (ast.In, ast.NotIn)) and isinstance(const, (tuple, list, frozenset, set, dict, str)):
                        return (key in const) == isinstance(op, ast.In)
            return None
        vals = [eval3(t, atom) for t in conds]
        if any(v is False for v in vals):
            return False
        return None if any(v is None for v in vals) else True

    def _comprehension(self, e, nid: int) -> Optional[Origin]:
        """`{k: v for k, v in <doc>.items() if <cond>}` and its spellings (pairs handed to dict(), iteration over the keys with
        `<doc>[k]`): the document itself iff every member is kept, under its own name, with its own value.  The condition is
        evaluated for every member to_dict stores over the partition {None, 0, '', truthy} of what the member can hold
        (None only for the members to_dict stores unconditionally)."""
        if isinstance(e, ast.DictComp):
            kx, vx = e.key, e.value
        elif isinstance(e.elt, ast.Tuple) and len(e.elt.elts) == 2:
            kx, vx = e.elt.elts
        else:
            return None
        if len(e.generators) != 1 or e.generators[0].is_async:
            return None
        g = e.generators[0]
        it = g.iter
        while isinstance(it, ast.Call) and self._q(it.func) in ('builtins.list', 'builtins.tuple', 'builtins.sorted', 'builtins.iter') \
                and len(it.args) == 1 and not it.keywords:
            it = it.args[0]
        mode, base = 'keys', it
        if isinstance(it, ast.Call) and isinstance(it.func, ast.Attribute) and it.func.attr in ('items', 'keys') and not it.args and not it.keywords:
            mode, base = it.func.attr, it.func.value
        origin = self.classify(base, nid)
        if not origin.derived:
            return None
        basetext = unparse(base)

        def member_of(x, k):
            if isinstance(x, ast.Subscript) and is_name(x.slice, k) and unparse(x.value) == basetext:
                return True
            return (isinstance(x, ast.Call) and isinstance(x.func, ast.Attribute) and x.func.attr == 'get' and len(x.args) == 1 and not x.keywords
                    and is_name(x.args[0], k) and unparse(x.func.value) == basetext)

        if mode == 'items':
            t = g.target
            if not (isinstance(t, (ast.Tuple, ast.List)) and len(t.elts) == 2 and all(isinstance(x, ast.Name) for x in t.elts)):
                raise UnknownIdiom('%s: target of %s' % (self.f.qual, short(e)))
            kn, vn = t.elts[0].id, t.elts[1].id
            is_val = lambda x: is_name(x, vn) or member_of(x, kn)  # noqa: E731
        else:
            if not isinstance(g.target, ast.Name):
                raise UnknownIdiom('%s: target of %s' % (self.f.qual, short(e)))
            kn = g.target.id
            is_val = lambda x: member_of(x, kn)  # noqa: E731
        is_key = lambda x: is_name(x, kn)  # noqa: E731
        if not self.members:
            raise UnknownIdiom('%s: the members of the document are not known here: %s' % (self.f.qual, short(e)))
        dropped, unknown = [], []
        for key in sorted(self.members):
            for cell in (CELL_NONE, CELL_ZERO, CELL_EMPTY, CELL_TRUTHY):
                if cell == CELL_NONE and not self.members[key]:
                    continue        # to_dict stores this member only when it is not None
                r = self._pred(g.ifs, is_key, is_val, key, cell)
                (dropped if r is False else unknown if r is None else []).append((key, cell))
        real = [(k, c) for (k, c) in dropped if c != CELL_NONE]
        if real:
            by = {}
            for k, c in real:
                by.setdefault(k, []).append(c)
            k0 = sorted(by, key=lambda k: (len(by[k]) == 3, k))[0]
            origin = origin.step('narrow', e, 'the member %r is dropped when its value is %s%s' % (
                k0, ' / '.join(by[k0]), '' if len(by) == 1 else ' (likewise %s)' % ', '.join(repr(k) for k in sorted(by) if k != k0)))
        elif unknown:
            raise UnknownIdiom('%s: the selection %s is not decided for member %r holding %s' % (
                self.f.qual, ' and '.join(short(t) for t in g.ifs), unknown[0][0], unknown[0][1]))
        elif dropped:
            raise UnknownIdiom('%s: %s drops only None-valued members; whether %s can be None is not decided here' % (
                self.f.qual, short(e), ', '.join(repr(k) for k, _c in dropped)))
        if not is_key(kx):
            origin = origin.step('rewrite', e, 'the members are stored under %s, not under their own names' % short(kx))
        if not is_val(vx):
            origin = origin.step('rewrite', e, 'what is stored is %s, not the member value' % short(vx))
        return origin

    def _mapping_shape(self, e, nid: int) -> Optional[Origin]:
        if isinstance(e, (ast.DictComp, ast.GeneratorExp, ast.ListComp)):
            r = self._comprehension(e, nid)
            if r is None and self.classify_any(e, nid).derived:
                raise UnknownIdiom('%s: cannot read how %s uses the document' % (self.f.qual, short(e)))
            return r if r is not None else Origin()
        if isinstance(e, ast.Dict) and e.keys and all(k is None for k in e.keys) and len(e.values) == 1:
            return self.classify(e.values[0], nid)          # {**doc}
        if isinstance(e, ast.Call):
            fn = e.func
            if self._q(fn) in DICT_COPIES and len(e.args) == 1 and not e.keywords and not isinstance(e.args[0], ast.Starred):
                return self.classify(e.args[0], nid)
            if isinstance(fn, ast.Attribute) and fn.attr == 'copy' and not e.args and not e.keywords:
                recv = self.classify(fn.value, nid)
                if recv.derived:
                    return recv
        return None


def _root_call(p, f: Func, target: str):
    """predicate: e is a call that resolves to the method `target` (self.<m>(...))"""
    def is_root(e):
        if not isinstance(e, ast.Call):
            return False
        g = p.callee(f, e)
        return isinstance(g, Func) and g.qual == target
    return is_root


def _returns(f: Func, cfg):
    rets = [n for n in cfg.live_nodes() if n.kind == 'stmt' and isinstance(n.ast, ast.Return)]
    if not rets or any(n.ast.value is None for n in rets):
        raise UnknownIdiom('%s: a path returns nothing' % f.qual)
    return rets


def _mapping_mutations(run, f: Func, prov: _Rendered, what: str):
    """No member is removed from the mapping to_dict() returned (pop/popitem/clear/del); a store / update of it is not read."""
    for n in walk_self(f.node):
        tgt, kind = None, None
        if isinstance(n, ast.Delete):
            for t in n.targets:
                if isinstance(t, ast.Subscript):
                    tgt, kind = t.value, 'del'
        elif isinstance(n, ast.Call) and isinstance(n.func, ast.Attribute) and n.func.attr in DICT_REMOVERS + DICT_WRITERS:
            tgt, kind = n.func.value, n.func.attr
        elif isinstance(n, (ast.Assign, ast.AugAssign)):
            for t in (n.targets if isinstance(n, ast.Assign) else [n.target]):
                if isinstance(t, ast.Subscript) or (isinstance(n, ast.AugAssign) and isinstance(t, ast.Name)):
                    tgt, kind = (t.value if isinstance(t, ast.Subscript) else t), 'store'
        if tgt is None:
            continue
        nid = prov.rd.cfg_node(n)
        if nid is None or not prov.classify(tgt, nid).derived:
            continue
        if kind in DICT_REMOVERS or kind == 'del':
            run.fail(what, f, n, where=f.loc(n), witness=['%s removes a member from the mapping to_dict() returned' % short(n)],
                     runtime_witness='an HTTPError carrying that member: the JSON body lacks it although to_dict() (and the XML rendering) has it')
        else:
            raise UnknownIdiom('%s: %s changes the mapping to_dict() returned (not read)' % (f.qual, short(n)))


def _whole_document_rule(run, members: Dict[str, bool]):
    """R4 (h): HTTPError.to_json hands `self.to_dict()` to the handler WHOLE: the first argument of `<handler>.serialize(...)`
    is that call's result itself (through copies), no member selected away, renamed or re-valued on the way (a selection
    is decided by evaluating its predicate over {None, 0, '', truthy} for every member to_dict stores), no member removed
    from it.  The only selection rule of the error document is `is not None` inside to_dict/_to_xml, compared by (c).
    W: HTTPError(429, code=0) with `{k: v for k, v in self.to_dict().items() if v}`: the JSON body has no "code".
    R4 (i): what to_json / to_xml RETURN is the bytes the serializer (`handler.serialize(...)`, `self._to_xml()`) produced,
    unchanged: a substitution / replace over the encoded bytes is the identity only when it touches no byte a UTF-8
    document can contain (a bytes pattern sees continuation bytes, not characters).
    W: HTTPError(400, title='Größe').to_xml() with rb'[\\x7f-\\x9f]' deleted: b'Gr\\xc3\\xb6\\xc3e' is not UTF-8 any more."""
    p = run.project
    # ---- to_json
    f = p.func(HTTP_ERROR + '.to_json')
    cfg = cfg_of(f, p)
    run.use_cfg(cfg)
    doc = _Rendered(p, f, _root_call(p, f, HTTP_ERROR + '.to_dict'), 'JSON', dict, members)
    what_h = 'HTTPError.to_json serialises the mapping to_dict() returned whole (no member selected away, renamed or re-valued)'
    sers = []
    ser_al = _aliases(f, lambda e: isinstance(e, ast.Attribute) and e.attr == 'serialize')       # serialize = handler.serialize
    for c in walk_self(f.node):
        if isinstance(c, ast.Call) and ((isinstance(c.func, ast.Attribute) and c.func.attr == 'serialize')
                                        or (isinstance(c.func, ast.Name) and c.func.id in ser_al)) and c.args \
                and not isinstance(c.args[0], ast.Starred):
            nid = doc.rd.cfg_node(c)
            if nid is None:
                continue
            o = doc.classify(c.args[0], nid)
            if o.derived:
                sers.append((c, o))
    if not sers:
        raise AnchorError('%s: no <handler>.serialize(<what self.to_dict() returned>, ...) call found' % f.qual)
    for c, o in sers:
        run.check(not o.xforms, what_h, f, o.xforms[0][1] if o.xforms else c, where=f.loc(o.xforms[0][1] if o.xforms else c),
                  witness=o.describe() or None,
                  runtime_witness="HTTPError(429, description='', code=0): the JSON body lacks the members the selection drops although "
                                  'to_dict() and the XML rendering carry them')
    _mapping_mutations(run, f, doc, what_h)
    ser_ids = {id(c) for c, _o in sers}
    out = _Rendered(p, f, lambda e: id(e) in ser_ids, 'JSON', bytes)
    what_i = 'HTTPError.%s returns the bytes the serializer produced, unchanged'
    for r in _returns(f, cfg):
        o = out.classify(r.ast.value, r.id)
        if not o.derived:
            raise UnknownIdiom('%s: %s does not return the result of the serialize call' % (f.qual, short(r.ast)))
        run.check(not o.xforms, what_i % 'to_json', f, o.xforms[0][1] if o.xforms else r.ast, where='%s:%s' % (f.file, r.lineno),
                  witness=o.describe() or None, runtime_witness='an HTTPError whose texts contain the affected bytes: the JSON body is corrupted')
    # ---- to_xml (the public wrapper of _to_xml)
    g = p.func(HTTP_ERROR + '.to_xml')
    gcfg = cfg_of(g, p)
    run.use_cfg(gcfg)
    xout = _Rendered(p, g, _root_call(p, g, HTTP_ERROR + '._to_xml'), 'XML', bytes)
    for r in _returns(g, gcfg):
        o = xout.classify(r.ast.value, r.id)
        if not o.derived:
            raise UnknownIdiom('%s: %s does not return what self._to_xml() produced' % (g.qual, short(r.ast)))
        run.check(not o.xforms, what_i % 'to_xml', g, o.xforms[0][1] if o.xforms else r.ast, where='%s:%s' % (g.file, r.lineno),
                  witness=o.describe() or None,
                  runtime_witness="HTTPError(400, title='Ungültige Größe', description='10 €').to_xml() (the documented "
                                  'set_error_serializer pattern): the body is no longer well-formed UTF-8 XML')


# ---------------------------------------------------------------------------
# R4 (b2) Vary: Accept holds THROUGH Response.append_header
# ---------------------------------------------------------------------------

# prior values of the Vary header (None: not set): what middleware / the error's own headers may have put there
VARY_BEFORE = (None, '', 'Accept', 'accept', '*', 'Origin', 'Accept-Encoding', 'Accept-Language, Cookie', 'X-Accept-Version',
               'Origin, Accept-Encoding', 'Accept-Encoding, Accept', 'Cookie,Accept')


def _members(text: str) -> List[str]:
    return [m.strip().lower() for m in text.split(',') if m.strip()]


def _arg_value(p, f: Func, e):
    """constant value of an argument expression of f: constants, once-bound locals, module constants, and a parameter of f
    that is an inert additive extension (nobody passes it) read as its default"""
    v = fold_in(p, f, e)
    if v is UNKNOWN and isinstance(e, ast.Name) and e.id in f.params():
        d = inert_default(p, f, e.id)
        if d is not None:
            return p.fold(f.module, d, f.cls, None)
    return v


def _vary_through_append(run, ser: Func, call: ast.Call, respn: str):
    """The serializer's `resp.append_header('Vary', 'Accept')` promises the MEMBER Accept in the Vary header whatever the
    header held before.  Decided by evaluating the body of the response classes' append_header (nothing is imported or
    executed: c09_helpers.ConcreteEval interprets the AST) on the serializer's own constant arguments for every prior
    value in VARY_BEFORE: afterwards the comma-separated members of the stored value contain 'accept' and every member
    that was there before.
    W: a middleware set Vary: Accept-Encoding; append_header skips the append because 'Accept' in 'Accept-Encoding' ->
    the negotiated (JSON vs XML) error body goes out without Vary: Accept."""
    p = run.project
    name, value = (_arg_value(p, ser, x) for x in call.args)
    kwargs = {k.arg: _arg_value(p, ser, k.value) for k in call.keywords}
    if any(k is None or v is UNKNOWN for k, v in kwargs.items()):
        raise UnknownIdiom('%s: keyword arguments of %s' % (ser.qual, short(call)))
    seen: Dict[str, Tuple[Func, str, List[str]]] = {}
    for app, _q, tag in APPS:
        cq = _response_class(p, app)
        f = p.lookup_method(cq, 'append_header')
        if f is None:
            raise AnchorError('%s.append_header not found' % cq)
        seen.setdefault(f.qual, (f, cq, []))[2].append(tag)
    for f, cq, tags in seen.values():
        run.use(f)
        tag = '/'.join(tags)
        # the call is evaluated as the serializer makes it: (name, value) bind the first two parameters after self; further
        # parameters (additive extensions such as a keyword-only separator) take their defaults, exactly as at run time
        probe = ast.Call(func=ast.Attribute(value=ast.Name(id=respn, ctx=ast.Load()), attr='append_header', ctx=ast.Load()),
                         args=list(call.args), keywords=list(call.keywords))
        if bind_args(f, probe, bound_self=True) is None:
            raise UnknownIdiom('%s: signature %s does not bind %s' % (f.qual, f.params(), short(call)))
        failures = []
        for before in VARY_BEFORE:
            ce = _c9.ConcreteEval(p)
            headers = {} if before is None else {name.lower(): before}
            obj = _c9.CObj(cq, {'_headers': headers, '_extra_headers': None})
            try:
                ce.call_func(f, [obj, name, value], dict(kwargs))
            except _c9.CRaise as ex:
                raise UnknownIdiom('%s: evaluation on (%r, %r) with prior value %r raises %s' % (f.qual, name, value, before, ex.cls))
            after = obj.attrs.get('_headers')
            if not isinstance(after, dict) or not all(isinstance(k, str) and isinstance(v, str) for k, v in after.items()):
                raise UnknownIdiom('%s: does not keep the headers as a str -> str dict in self._headers' % f.qual)
            got = [after[k] for k in after if k.lower() == name.lower()]
            if len(got) > 1:
                raise UnknownIdiom('%s: stores %s under several keys' % (f.qual, name))
            have = _members(got[0]) if got else []
            want = _members(before or '') + [value.lower()]
            missing = [m for m in dict.fromkeys(want) if m not in have]
            if missing:
                tests = [t for t in ce.trace if t[0] == 'test' and t[3] == f.qual]
                failures.append((before, got[0] if got else None, missing, tests[-1] if tests else None))
        if failures:
            before, got, missing, test = failures[0]
            construct = test[1] if test is not None else 'append_header(%r, %r)' % (name, value)
            run.fail('%s: after the default error serializer\'s append_header(%r, %r) the %s header lists %s next to whatever it listed before'
                     % (tag, name, value, name, value), f, construct, where=f.loc(test[1]) if test is not None else f.loc(),
                     witness=['%s: %r before -> %r after (members lost: %s)' % (name, b, g, ', '.join(m_)) for (b, g, m_, _t) in failures],
                     runtime_witness='a middleware sets %s: %s before the error is rendered: the response goes out with %s: %s, without the '
                                     'member %s, and a shared cache may serve the XML rendering to a JSON client'
                                     % (name, before, name, got, value))
        else:
            run.ok('%s: after the default error serializer\'s append_header(%r, %r) the %s header lists %s next to whatever it listed before '
                   '(%d prior values evaluated)' % (tag, name, value, name, value, len(VARY_BEFORE)), f.loc(), 'append_header(%r, %r)' % (name, value))


def r4_rendering(run):
    p = run.project
    _anchors(run.project)
    # (a) composers
    for meth, kind in (('_compose_error_response', 'ERROR'), ('_compose_status_response', 'STATUS')):
        seen = {}
        for app, _q, tag in APPS:
            f = effective_method(p, app, meth)
            seen.setdefault(f.qual, (f, []))[1].append(tag)
        for f, tags in seen.values():
            _compose_rule(run, f, kind, '/'.join(tags))
    # (b) Vary: Accept
    init = p.func(WSGI_APP + '.__init__')
    ser = None
    for n in walk_self(init.node):
        if isinstance(n, ast.Assign) and any(is_self_attr(t, '_serialize_error') for t in n.targets):
            ser = p.resolve_callable(init, n.value)
    if not isinstance(ser, Func):
        raise AnchorError('default error serializer assigned in App.__init__ could not be resolved')
    cfg = cfg_of(ser, p)
    run.use_cfg(cfg)
    ix = Index(cfg)
    respn = param_at(ser, 1, 'resp')
    vary = []
    for c in walk_self(ser.node):
        if isinstance(c, ast.Call) and isinstance(c.func, ast.Attribute) and c.func.attr == 'append_header' and is_name(c.func.value, respn) \
                and len(c.args) == 2:
            a, b = (_arg_value(p, ser, x) for x in c.args)
            if isinstance(a, str) and isinstance(b, str) and a.lower() == 'vary' and b.lower() == 'accept':
                vary.append(c)
            elif (isinstance(a, str) and a.lower() == 'vary' and b is UNKNOWN) or (a is UNKNOWN and isinstance(b, str) and b.lower() == 'accept'):
                raise UnknownIdiom('%s: cannot read the arguments of %s' % (ser.qual, short(c)))
    path = _all_paths_through(cfg, _call_nodes(ix, vary))
    run.check(bool(vary) and path is None, 'the default error serializer appends Vary: Accept on every path', ser,
              "%s.append_header('Vary', 'Accept')" % respn, where=ser.loc(), witness=flow.describe_path(cfg, path) if path else None,
              runtime_witness='an error response without Vary: Accept (e.g. when no acceptable media type was found)')
    # (b2) ... and the header helper it calls really adds the member
    for c in vary:
        _vary_through_append(run, ser, c, respn)
    # (f) negotiated media type
    _negotiation_rule(run, ser)
    # (c) sibling field sets
    d = _dict_fields(run, p.func(HTTP_ERROR + '.to_dict'))
    xf = p.func(HTTP_ERROR + '._to_xml')
    x = _xml_fields(run, xf)
    for k in sorted(set(d) | set(x)):
        if k not in x or k not in d:
            side = 'to_dict' if k in d else '_to_xml'
            other = p.func(HTTP_ERROR + '.to_dict') if k in x else xf
            run.fail('HTTPError.to_dict and HTTPError._to_xml emit the same fields', other, 'field %r only in %s' % (k, side),
                     where=other.loc(), runtime_witness='an HTTPError with %s set: JSON and XML bodies differ in content' % k)
            continue
        run.check(d[k][0] == x[k][0], 'field %r is emitted under the same condition in to_dict and _to_xml' % k, xf,
                  'field %r: %s vs %s' % (k, sorted(d[k][0]), sorted(x[k][0])) if d[k][0] != x[k][0] else 'field %r condition' % k,
                  where=xf.loc(x[k][2]), runtime_witness='an HTTPError whose %s is falsy but not None' % k)
        run.check(d[k][1] == x[k][1] and bool(d[k][1]), 'field %r is taken from the same attribute in to_dict and _to_xml' % k, xf,
                  'field %r source' % k, where=xf.loc(x[k][2]))
    # (g) what goes into the document is the field value itself
    _document_text_rule(run, xf, 'XML')
    _document_text_rule(run, p.func(HTTP_ERROR + '.to_dict'), 'JSON')
    # (h) to_json serialises that dict whole; (i) to_json / to_xml return the serializer's bytes unchanged
    _whole_document_rule(run, {k: not any(('self.%s is not None' % a) in d[k][0] for a in d[k][1]) for k in d})
    # (d) status tables
    _status_tables(run)
    # (e) constructor wiring
    _ctor_wiring(run, HTTP_ERROR + '.__init__', ('status', 'title', 'description', 'headers', 'code'))
    _ctor_wiring(run, HTTP_STATUS + '.__init__', ('status', 'headers', 'text'))


# ---------------------------------------------------------------------------
# R5 the Python-error handler never escapes
# ---------------------------------------------------------------------------

def _python_handler_name(p) -> str:
    init = inline_view(p, p.func(WSGI_APP + '.__init__'), _INIT_KEEP)
    is_add = method_of(init, {'self'}, 'add_error_handler')
    for c in walk_self(init.node):
        if isinstance(c, ast.Call) and is_add(c.func) and len(c.args) >= 2:
            if p.resolve_expr(init.module, c.args[0], init) == 'builtins.Exception':
                hm = c.args[1]
                if isinstance(hm, ast.Attribute) and is_name(hm.value, 'self'):
                    return hm.attr
    raise AnchorError('default handler for Exception not found in App.__init__')


TEMPLATE_WHY = 'format template built from non-constant text'


class _FormatEscape(SiteEscape):
    """E5 for the handler of last resort, where `str.format` / `%` / `format_map` is NOT taken as total: it is total only
    for a template that is a constant (and, for .format, whose replacement fields are all supplied).  A template built from
    non-constant text (a parameter, a concatenation with one) is parsed at run time: any '{' / '}' / '%' in that text raises
    KeyError / IndexError / ValueError (TypeError / ValueError for %).
    W: log_error() doing (PREFIX + message).format(...) with message = a traceback quoting '{"op": 1}' -> KeyError out of
    App._python_error_handler, out of __call__, into the WSGI server; the remaining process_response methods never run."""

    FORMAT_ERRORS = ('builtins.IndexError', 'builtins.KeyError', 'builtins.ValueError')
    PERCENT_ERRORS = ('builtins.TypeError', 'builtins.ValueError')

    def _bindings(self, func: Func, name: str):
        """value expressions bound to the local `name` (None: bound in a way that is not a plain single-name assignment)."""
        if name in func.params():
            return None
        vals = []
        for n in walk_no_nested(func.node):
            if isinstance(n, ast.Assign) and any(isinstance(x, ast.Name) and x.id == name for t in n.targets for x in ast.walk(t)):
                if len(n.targets) != 1 or not isinstance(n.targets[0], ast.Name):
                    return None
                vals.append(n.value)
            elif isinstance(n, ast.AnnAssign) and is_name(n.target, name):
                if n.value is not None:
                    vals.append(n.value)
            elif isinstance(n, ast.Name) and n.id == name and isinstance(n.ctx, (ast.Store, ast.Del)):
                pass
        stores = [n for n in walk_no_nested(func.node) if isinstance(n, ast.Name) and n.id == name and isinstance(n.ctx, (ast.Store, ast.Del))]
        return vals if vals and len(stores) == len(vals) else None

    def _template(self, func: Func, e, depth=0) -> Optional[List[str]]:
        """the constant texts `e` can denote, or None when (part of) it is not a constant."""
        v = self.p.fold(func.module, e, None, func)
        if isinstance(v, str):
            return [v]
        if depth > 4:
            return None
        if isinstance(e, ast.IfExp):
            alts = [self._template(func, x, depth + 1) for x in (e.body, e.orelse)]
        elif isinstance(e, ast.BoolOp):
            alts = [self._template(func, x, depth + 1) for x in e.values]
        elif isinstance(e, ast.Name):
            vals = self._bindings(func, e.id)
            if not vals:
                return None
            alts = [self._template(func, x, depth + 1) for x in vals]
        else:
            return None
        if any(a is None for a in alts):
            return None
        return [t for a in alts for t in a]

    def _texty(self, func: Func, e, depth=0) -> bool:
        """`e` is certainly a str (so that `e % x` is formatting, not arithmetic)."""
        if isinstance(e, ast.Constant):
            return isinstance(e.value, str)
        if isinstance(e, ast.JoinedStr):
            return True
        if isinstance(e, ast.BinOp) and isinstance(e.op, ast.Add):
            return self._texty(func, e.left, depth) or self._texty(func, e.right, depth)
        if isinstance(e, ast.Call) and isinstance(e.func, ast.Attribute) and e.func.attr in ('format', 'join', 'format_map'):
            return True
        if isinstance(e, ast.Call) and isinstance(e.func, ast.Name) and e.func.id == 'str':
            return True
        if isinstance(e, ast.Name) and depth < 3:
            vals = self._bindings(func, e.id)
            return bool(vals) and all(self._texty(func, x, depth + 1) for x in vals)
        return isinstance(self.p.fold(func.module, e, None, func), str)

    def _format_site(self, n: ast.Call, func, selfcls, handlers, out):
        import string
        recv = n.func.value
        alts = self._template(func, recv)
        if alts is None:
            for exc in self.FORMAT_ERRORS:
                self._prim(out, exc, func, n, handlers, TEMPLATE_WHY)
            return
        if n.func.attr != 'format':
            return
        open_pos = any(isinstance(a, ast.Starred) for a in n.args)
        open_kw = any(k.arg is None for k in n.keywords)
        names = {k.arg for k in n.keywords}
        for t in alts:
            try:
                fields = [fld for (_lit, fld, _spec, _conv) in string.Formatter().parse(t) if fld is not None]
            except ValueError:
                self._prim(out, 'builtins.ValueError', func, n, handlers, 'malformed constant format template')
                continue
            auto = 0
            for fld in fields:
                head = re.split(r'[.\[]', fld, maxsplit=1)[0]
                if head == '':
                    idx, auto = auto, auto + 1
                elif head.isdigit():
                    idx = int(head)
                else:
                    if head not in names and not open_kw:
                        self._prim(out, 'builtins.KeyError', func, n, handlers, 'replacement field {%s} is not supplied' % head)
                    continue
                if idx >= len(n.args) and not open_pos:
                    self._prim(out, 'builtins.IndexError', func, n, handlers, 'replacement field {%s} is not supplied' % idx)

    def _call(self, n: ast.Call, func, selfcls, handlers, out):
        f = n.func
        if isinstance(f, ast.Attribute) and f.attr in ('format', 'format_map'):
            # a str method unless the receiver is a package object / module that has its own `format`
            rc = self._receiver_class(f.value, func, selfcls)
            t = self.p.resolve_callable(func, f)
            own = (rc is not None and self.p.lookup_method(rc, f.attr) is not None) or (t is not None and not isinstance(t, str)) \
                or self.p.resolve_expr(func.module, f.value, func) in self.p.modules
            if not own:
                self._format_site(n, func, selfcls, handlers, out)
        super()._call(n, func, selfcls, handlers, out)

    def _expr(self, e, func, selfcls, handlers, out, store=False):
        super()._expr(e, func, selfcls, handlers, out, store)
        if e is None:
            return
        for n in [e] + list(walk_no_nested(e)):
            if isinstance(n, ast.BinOp) and isinstance(n.op, ast.Mod) and self._texty(func, n.left) and self._template(func, n.left) is None:
                for exc in self.PERCENT_ERRORS:
                    self._prim(out, exc, func, n, handlers, TEMPLATE_WHY)


def r5_never_escapes(run):
    _r5(run, compose=True, escape=True)


def r5_handler_raises_nothing(run):
    """The escape half of R5 alone (shared with C03: "process_response still runs after an unexpected exception" needs
    the handler of last resort not to raise)."""
    _r5(run, compose=False, escape=True)


def _r5(run, compose: bool, escape: bool):
    p = run.project
    _anchors(run.project)
    name = _python_handler_name(p)
    for app, _q, tag in APPS:
        f = effective_method(p, app, name)
        cfg = cfg_of(f, p)
        run.use_cfg(cfg)
        ix = Index(cfg)
        reqn, respn = param_at(f, 1, 'req'), param_at(f, 2, 'resp')
        http = pruned(cfg, _truthy(respn), flow.no_exc)
        good, bad = [], []
        construction: Set[int] = set()
        is_compose = method_of(f, {'self'}, '_compose_error_response')      # compose = self._compose_error_response: the method
        REQ, RESP = same_names(f, reqn), same_names(f, respn)
        for x in walk_self(f.node):
            if isinstance(x, ast.Assign) and is_compose(x.value) and not isinstance(x.value, ast.Name):
                construction.add(id(x))         # the binding of the bound method: looks the attribute up, calls nothing
        for c in walk_self(f.node):
            if isinstance(c, ast.Call) and is_compose(c.func) and len(c.args) >= 3 \
                    and isinstance(c.args[0], ast.Name) and c.args[0].id in REQ and isinstance(c.args[1], ast.Name) and c.args[1].id in RESP:
                e = c.args[2]
                if isinstance(e, ast.Name):
                    binds = [n for n in walk_self(f.node) if isinstance(n, ast.Assign) and any(is_name(t, e.id) for t in n.targets)]
                    if len(binds) != 1:
                        raise UnknownIdiom('%s: composed error %s has %d bindings' % (f.qual, e.id, len(binds)))
                    e = binds[0].value
                    construction.add(id(binds[0]))
                cls = p.resolve_callable(f, e.func) if isinstance(e, ast.Call) else None
                if isinstance(cls, (str, Func)) or cls is None or p.is_subclass(cls.qual, HTTP_ERROR) is not True:
                    raise UnknownIdiom('%s: composed error %s is not an HTTPError construction' % (f.qual, short(e)))
                code = _class_status_code(p, cls)
                (good if code == 500 else bad).append((c, code))
        nodes = _call_nodes(ix, [c for c, _ in good])
        if compose:
            for c, code in bad:
                run.fail('%s: the default handler for Exception composes a 500 response' % tag, f, c,
                         runtime_witness='an unexpected exception is reported with status %s' % code)
            path = _all_paths_through(cfg, nodes, http)
            run.check(bool(nodes) and path is None, '%s: the default handler for Exception composes a 500 response on every path' % tag, f,
                      'self._compose_error_response(%s, %s, <500>)' % (reqn, respn), where=f.loc(),
                      witness=flow.describe_path(cfg, path) if path else None,
                      runtime_witness='an unexpected exception leaves the response as the responder left it (e.g. 200)')
        if not escape:
            continue
        # nothing of its own escapes.  Not judged here: the user-replaceable serializer, and the composition of the
        # fresh constant-status HTTPInternalServerError (its status/headers are decided by R4 a/d, value-dependent for E5)
        E = _FormatEscape(p, receivers={reqn: _request_class(p, app), respn: _response_class(p, app)})
        live = flow.reachable(cfg, [cfg.entry], edge_filter=pruned(cfg, _truthy(respn)))
        # (a composition with another status is the compose half's violation, not an escape of the handler's own)
        good_stmts = {id(cfg.node(n).ast) for n in _call_nodes(ix, [c for c, _ in good + bad])} | construction

        def keep(s, cfg=cfg, live=live, good_stmts=good_stmts):
            return id(s) not in good_stmts and bool(nodes_within(cfg, [s]) & live)

        E.restrict(f, keep)
        summ = E.summary(f, p.cls(app))
        templates: Dict[Tuple[str, str], Tuple[list, List[str]]] = {}
        for key, chain in sorted(summ.items()):
            cls, origin = split_key(key)
            if TEMPLATE_WHY in chain[-1][1]:
                templates.setdefault(chain[-1], (chain, []))[1].append(cls.rsplit('.', 1)[-1])
                continue
            run.fail('%s: nothing raised by the default Exception handler itself escapes it' % tag, f,
                     '%s raises %s' % (_site_text(chain[0][1]), cls), where=chain[0][0], witness=['%s %s' % w for w in chain])
        for (where, text), (chain, classes) in sorted(templates.items()):
            rel, _, line = where.rpartition(':')
            g = _func_at(p, rel, int(line)) if line.isdigit() else None
            run.fail('%s: no text formatting reachable from the default Exception handler parses non-constant text as its template '
                     '(str.format / %% raise on a brace / percent sign in it)' % tag, g or f, _site_text(text), where=where,
                     witness=['%s %s' % w for w in chain],
                     runtime_witness='an unexpected exception whose traceback text contains "{" or "}" (a quoted JSON document, a dict '
                                     'literal on a source line): %s escapes the handler of last resort, the app callable raises into the '
                                     'server and the remaining process_response methods never run' % '/'.join(classes))
        if not summ:
            run.ok('%s: the default Exception handler has an empty escape set of its own' % tag, f.loc(), f.name)
        # the exception OBJECT is user data: converting it to text runs its class's __str__/__repr__/__format__,
        # which can raise (the traceback module guards that; str()/format()/f-strings do not)
        errn = param_at(f, 3, 'error') if len(f.params()) > 3 else None
        if errn:
            par = {}
            for x in ast.walk(f.node):
                for ch in ast.iter_child_nodes(x):
                    par[id(ch)] = x

            def protected(n):
                cur = n
                while id(cur) in par:
                    up = par[id(cur)]
                    if isinstance(up, ast.Try) and any(cur is b for b in up.body):
                        for h in up.handlers:
                            if h.type is None or (isinstance(h.type, ast.Name) and h.type.id in ('Exception', 'BaseException')):
                                return True
                    cur = up
                return False

            def mentions(e):
                return any(is_name(x, errn) for x in ast.walk(e))

            convs = []
            for x in walk_self(f.node):
                if isinstance(x, ast.Call) and isinstance(x.func, ast.Name) and x.func.id in ('str', 'repr', 'format', 'ascii', 'bytes') \
                        and x.args and is_name(x.args[0], errn):
                    convs.append(x)
                elif isinstance(x, ast.Call) and isinstance(x.func, ast.Attribute) and x.func.attr in ('format', 'format_map') \
                        and any(is_name(a, errn) for a in list(x.args) + [k.value for k in x.keywords]):
                    convs.append(x)
                elif isinstance(x, ast.JoinedStr) and any(isinstance(v, ast.FormattedValue) and is_name(v.value, errn) for v in x.values):
                    convs.append(x)
                elif isinstance(x, ast.BinOp) and isinstance(x.op, ast.Mod) and (is_name(x.right, errn) or (
                        isinstance(x.right, ast.Tuple) and any(is_name(e, errn) for e in x.right.elts))):
                    convs.append(x)
            for x in convs:
                run.check(protected(x), '%s: the default Exception handler does not convert the caught exception object to text outside a '
                          'try/except Exception (its __str__/__repr__ is user code)' % tag, f, x,
                          runtime_witness='a responder raises an exception whose __str__ raises: the conversion escapes the handler of last '
                                          'resort and the error reaches the WSGI/ASGI server instead of a composed 500')
            if not convs:
                run.ok('%s: the default Exception handler never converts the caught exception object to text' % tag, f.loc(), f.name)


def _class_status_code(p, cls) -> Optional[int]:
    for k in p.mro(cls.qual):
        c = p.classes.get(k)
        if c is None or k == HTTP_ERROR:
            return None
        init = c.methods.get('__init__')
        if init is None:
            continue
        for n in walk_self(init.node):
            if (isinstance(n, ast.Call) and isinstance(n.func, ast.Attribute) and n.func.attr == '__init__'
                    and isinstance(n.func.value, ast.Call) and is_name(n.func.value.func, 'super')):
                pos = [a for a in n.args if not isinstance(a, ast.Starred)]
                if pos:
                    v = p.fold(c.module, pos[0], None, init)
                    if isinstance(v, str) and re.match(r'^\d{3}', v):
                        return int(v[:3])
                    if isinstance(v, int):
                        return v
                    return None
    return None


# ---------------------------------------------------------------------------
# R6 nothing client-triggerable raises before the first try
# ---------------------------------------------------------------------------

# server-mandated keys: the table lookup cannot fail for a conforming server
KEY_EXEMPT = {
    'wsgi.errors': 'PEP 3333: the environ MUST contain wsgi.errors',
    'wsgi.input': 'PEP 3333: the environ MUST contain wsgi.input',
    'wsgi.url_scheme': 'PEP 3333: the environ MUST contain wsgi.url_scheme',
    'wsgi.version': 'PEP 3333: the environ MUST contain wsgi.version',
    'REQUEST_METHOD': 'PEP 3333: REQUEST_METHOD is always present and never empty',
    'PATH_INFO': 'PEP 3333 / CGI: PATH_INFO is set by the server (possibly empty)',
    'SERVER_NAME': 'PEP 3333: SERVER_NAME is required and never empty',
    'SERVER_PORT': 'PEP 3333: SERVER_PORT is required and never empty',
    'SERVER_PROTOCOL': 'PEP 3333: SERVER_PROTOCOL is required',
    'type': 'ASGI spec: every scope has a "type" key',
    'headers': 'ASGI HTTP spec: scope["headers"] is produced by the server, never by the client (spec default: empty list; uvicorn/daphne/hypercorn always send it)',
    'method': 'ASGI HTTP spec: "method" is a required key of the http scope',
    'path': 'ASGI HTTP spec: "path" is a required key of the http/websocket scope',
    'query_string': 'ASGI HTTP spec: presence of scope["query_string"] is decided by the server, never by the client (its *content* is client data and is judged)',
}

# explicit raises that reject what only the *server* chooses: (function, class) -> reason
RAISE_EXEMPT = {
    ('falcon.asgi._asgi_helpers._validate_asgi_scope', 'falcon.errors.UnsupportedScopeError'):
        'ASGI spec: applications should reject unknown protocols / spec versions with an exception; '
        'scope type and spec_version are chosen by the server, not the client',
    ('falcon.asgi._asgi_helpers._validate_asgi_scope', 'falcon.errors.UnsupportedError'):
        'ASGI spec enumerates http_version values ("1.0", "1.1", "2", "3"); the server, not the client, produces them',
}
# keys of the scope from which the arguments of the validation may be taken
SCOPE_META_KEYS = {'type', 'asgi', 'spec_version', 'http_version', 'version'}


def _default_type(p, app: str, attr: str):
    """Class the app instantiates for requests/responses by default."""
    init = p.func(WSGI_APP + '.__init__')
    val = None
    for n in walk_self(init.node):
        if isinstance(n, ast.Assign) and any(is_self_attr(t, attr) for t in n.targets):
            val = n.value
    if not (isinstance(val, ast.BoolOp) and isinstance(val.op, ast.Or) and len(val.values) == 2 and isinstance(val.values[0], ast.Name)):
        raise UnknownIdiom('%s: default of self.%s is %s' % (init.qual, attr, short(val) if val is not None else 'not assigned'))
    param, default = val.values[0].id, val.values[1]
    mod, fn = init.module, init
    if app != WSGI_APP:
        ainit = p.func(app + '.__init__')
        sup = [c for c in walk_self(ainit.node) if isinstance(c, ast.Call) and p.callee(ainit, c) is init]
        call = single(sup, 'super().__init__ call', ainit.qual)
        names = [a.arg for a in init.node.args.args][1:]
        arg = None
        if param in names and names.index(param) < len(call.args):
            arg = call.args[names.index(param)]
        for k in call.keywords:
            if k.arg == param:
                arg = k.value
        if isinstance(arg, ast.BoolOp) and isinstance(arg.op, ast.Or) and len(arg.values) == 2:
            default, mod, fn = arg.values[1], ainit.module, ainit
        elif arg is not None and not (isinstance(arg, ast.Name)):
            raise UnknownIdiom('%s: %s argument of the base constructor is %s' % (ainit.qual, param, short(arg)))
    q = p.resolve_expr(mod, default, fn)
    if q not in p.classes:
        raise AnchorError('default %s class %s not resolved' % (attr, short(default)))
    return p.classes[q]


def _request_class(p, app):
    return _default_type(p, app, '_request_type').qual


def _response_class(p, app):
    return _default_type(p, app, '_response_type').qual


def _site_text(text: str) -> str:
    t = text.split('  [')[0]
    if t.startswith('call '):
        return t[5:] + '()'
    if t.startswith('read of property '):
        return t[len('read of property '):]
    return t


def _func_at(p, relpath: str, line: int) -> Optional[Func]:
    best = None
    for f in p.funcs.values():
        if f.module.relpath == relpath and f.node.lineno <= line <= (f.node.end_lineno or f.node.lineno):
            if best is None or f.node.lineno >= best.node.lineno:
                best = f
    return best


def _path_info_exemptions(p, ctor: Func) -> Dict[Tuple[str, str], str]:
    """`X.encode(<latin-1>)` where every definition of X reaching the call is
    the PATH_INFO value: PEP 3333 guarantees a latin-1 native string."""
    out = {}
    verdicts: Dict[Tuple[str, str], List[bool]] = {}
    cfg = cfg_of(ctor, p)
    ix = Index(cfg)
    try:
        env = param_at(ctor, 1, 'environ')
    except AnchorError:
        return out

    def is_path_info(e):
        if isinstance(e, ast.BoolOp) and isinstance(e.op, ast.Or) and len(e.values) == 2:
            d = e.values[1]
            return is_path_info(e.values[0]) and isinstance(d, ast.Constant) and isinstance(d.value, str) and d.value.isascii()
        return (isinstance(e, ast.Subscript) and is_name(e.value, env) and isinstance(e.slice, ast.Constant)
                and e.slice.value == 'PATH_INFO')

    for c in walk_self(ctor.node):
        if not (isinstance(c, ast.Call) and isinstance(c.func, ast.Attribute) and c.func.attr == 'encode' and isinstance(c.func.value, ast.Name)):
            continue
        codec = c.args[0].value if c.args and isinstance(c.args[0], ast.Constant) else None
        if not (isinstance(codec, str) and codec.lower() in TOTAL_CODECS) or len(c.args) > 1 or c.keywords:
            continue
        name = c.func.value.id
        ok = True
        for nid in ix.nodes_of(c):
            ds = ix.defs_reaching(nid, name)
            if not ds:
                ok = False
            for d in ds:
                dv = def_value(cfg, d, name)
                if not (dv[0] == 'expr' and is_path_info(dv[1])):
                    ok = False
        key = (ctor.qual, ' '.join(short(c, 200).split()))
        verdicts.setdefault(key, []).append(ok and bool(ix.nodes_of(c)))
    for key, oks in verdicts.items():
        # the exemption is keyed by construct text: it holds only if every occurrence qualifies
        if all(oks):
            out[key] = ('PEP 3333: PATH_INFO is a native string holding latin-1-decoded bytes, so re-encoding it as latin-1 is '
                        'total (every definition reaching this call is env[\'PATH_INFO\'])')
    return out


def _validation_args_server_chosen(p, f: Func, call: ast.Call) -> bool:
    """Every argument of the scope validation derives only from the scope's
    meta keys (type / asgi.spec_version / http_version) or constants."""
    scope = param_at(f, 1, 'scope')
    ok_names: Set[str] = set()

    def ok_expr(e) -> bool:
        if isinstance(e, ast.Constant):
            return True
        if isinstance(e, ast.Dict):
            return all(k is not None and ok_expr(k) for k in e.keys) and all(ok_expr(v) for v in e.values)
        if isinstance(e, ast.Name):
            return e.id in ok_names
        if isinstance(e, ast.Subscript) and isinstance(e.slice, ast.Constant) and e.slice.value in SCOPE_META_KEYS:
            return is_name(e.value, scope) or ok_expr(e.value)
        if isinstance(e, ast.Call) and isinstance(e.func, ast.Attribute) and e.func.attr == 'get' and e.args \
                and isinstance(e.args[0], ast.Constant) and e.args[0].value in SCOPE_META_KEYS:
            return (is_name(e.func.value, scope) or ok_expr(e.func.value)) and all(ok_expr(a) for a in e.args[1:])
        return False

    assigns: Dict[str, List[ast.AST]] = {}
    for n in walk_self(f.node):
        if isinstance(n, ast.Assign):
            for t in n.targets:
                if isinstance(t, ast.Name):
                    assigns.setdefault(t.id, []).append(n.value)
        elif isinstance(n, ast.AnnAssign) and isinstance(n.target, ast.Name) and n.value is not None:
            assigns.setdefault(n.target.id, []).append(n.value)
    changed = True
    while changed:
        changed = False
        for name, vals in assigns.items():
            if name not in ok_names and all(ok_expr(v) or (isinstance(v, ast.Call) and v is call) for v in vals):
                ok_names.add(name)
                changed = True
    return all(ok_expr(a) for a in call.args) and not call.keywords


def _http_scope_atom(f: Func):
    """Valuation of `T == '<const>'` / `T != '<const>'` under the assumption that the scope type is 'http', where every
    definition of the local T is <first parameter>['type'].  (No such test exists in the WSGI callable.)"""
    try:
        scope = param_at(f, 1, 'scope/environ')
    except AnchorError:
        return lambda e: None
    defs: Dict[str, List[ast.AST]] = {}
    for n in walk_self(f.node):
        if isinstance(n, ast.Assign):
            for t in n.targets:
                for x in ast.walk(t):
                    if isinstance(x, ast.Name):
                        defs.setdefault(x.id, []).append(n.value if t is x else None)
        elif isinstance(n, ast.AnnAssign) and isinstance(n.target, ast.Name) and n.value is not None:
            defs.setdefault(n.target.id, []).append(n.value)

    def is_type(e):
        return (isinstance(e, ast.Subscript) and is_name(e.value, scope) and isinstance(e.slice, ast.Constant) and e.slice.value == 'type')

    def is_type_local(e):
        return is_type(e) or (isinstance(e, ast.Name) and e.id in defs and all(v is not None and is_type(v) for v in defs[e.id]))

    def atom(e):
        if isinstance(e, ast.Compare) and len(e.ops) == 1 and is_type_local(e.left):
            c = e.comparators[0]
            if isinstance(c, ast.Constant) and isinstance(c.value, str):
                if isinstance(e.ops[0], ast.Eq):
                    return c.value == 'http'
                if isinstance(e.ops[0], ast.NotEq):
                    return c.value != 'http'
        return None

    return atom


def _membership_facts(test, truth: bool) -> Set[Tuple[str, str]]:
    """(key text, mapping text) pairs `k in d` that HOLD when `test` evaluates to `truth`: `k in d` (true), `k not in d` /
    `not (k in d)` (false), every conjunct of a true `and`, every disjunct of a false `or`."""
    out: Set[Tuple[str, str]] = set()
    if isinstance(test, ast.UnaryOp) and isinstance(test.op, ast.Not):
        return _membership_facts(test.operand, not truth)
    if isinstance(test, ast.BoolOp):
        if isinstance(test.op, ast.And) == truth:
            for v in test.values:
                out |= _membership_facts(v, truth)
        return out
    if isinstance(test, ast.Compare) and len(test.ops) == 1 and isinstance(test.ops[0], (ast.In, ast.NotIn)):
        if isinstance(test.ops[0], ast.In) == truth:
            ch = _attr_chain(test.comparators[0])
            if ch:
                out.add((short(test.left), '.'.join(ch)))
    return out


class _GuardedSiteEscape(SiteEscape):
    """SiteEscape that also reads the membership guards the engine does not: those established INSIDE an expression -
    `d[k] if k in d else c`, `c if k not in d else d[k]`, `k in d and d[k]`, `k not in d or d[k]` - and on the ELSE arm of a
    statement `if k not in d: ... else: d[k]`.  A subscript `d[k]` evaluated only when `k in d` held for the same key text on
    the same mapping text cannot raise KeyError; nothing but the operands themselves runs between the test and the subscript
    of one expression (the same assumption the engine's statement-level `if k in d:` guard makes).  A guard on ANOTHER key or
    ANOTHER mapping, or the subscript on the arm where the key is absent, is still reported."""

    def _stmt(self, s, func, selfcls, handlers, out, caught_ctx):
        if isinstance(s, ast.If) and s.orelse and not (self.stmt_filter is not None and func is self.root_func and not self.stmt_filter(s)):
            neg = _membership_facts(s.test, False)
            if neg:
                self._expr(s.test, func, selfcls, handlers, out)
                pos = _membership_facts(s.test, True)
                for facts, block in ((pos, s.body), (neg, s.orelse)):
                    if facts:
                        self._guarded_block(block, func, selfcls, handlers, out, caught_ctx, facts)
                    else:
                        self._block(block, func, selfcls, handlers, out, caught_ctx)
                return
        super()._stmt(s, func, selfcls, handlers, out, caught_ctx)

    def _expr(self, e, func, selfcls, handlers, out, store=False):
        if e is None:
            return
        if not any(isinstance(n, (ast.IfExp, ast.BoolOp)) for n in walk_self(e)):
            return super()._expr(e, func, selfcls, handlers, out, store)
        self._gexpr(e, func, selfcls, handlers, out)

    def _under(self, facts, e, func, selfcls, handlers, out):
        if facts:
            self._guards.append(facts)
            try:
                self._gexpr(e, func, selfcls, handlers, out)
            finally:
                self._guards.pop()
        else:
            self._gexpr(e, func, selfcls, handlers, out)

    def _gexpr(self, e, func, selfcls, handlers, out):
        if isinstance(e, ast.IfExp):
            self._gexpr(e.test, func, selfcls, handlers, out)
            self._under(_membership_facts(e.test, True), e.body, func, selfcls, handlers, out)
            self._under(_membership_facts(e.test, False), e.orelse, func, selfcls, handlers, out)
            return
        if isinstance(e, ast.BoolOp):
            facts: Set[Tuple[str, str]] = set()
            truth = isinstance(e.op, ast.And)   # a later operand runs when the earlier ones were all true (and) / all false (or)
            for v in e.values:
                self._under(set(facts), v, func, selfcls, handlers, out)
                facts |= _membership_facts(v, truth)
            return
        if isinstance(e, ast.Call):
            self._call(e, func, selfcls, handlers, out)
        elif isinstance(e, ast.Attribute) and isinstance(e.ctx, ast.Load):
            self._attr_read(e, func, selfcls, handlers, out)
        elif isinstance(e, ast.Subscript) and isinstance(e.ctx, ast.Load):
            self._subscript(e, func, handlers, out)
        if isinstance(e, (ast.FunctionDef, ast.AsyncFunctionDef, ast.ClassDef, ast.Lambda)):
            return
        for ch in ast.iter_child_nodes(e):
            self._gexpr(ch, func, selfcls, handlers, out)


def _pre_try(run, app: str, qual: str, tag: str):
    p = run.project
    af = AppFlow(p, qual)
    cfg, f = af.cfg, af.func
    run.use_cfg(cfg)
    appcls = p.cls(app)
    events = set()
    for lab in ('REQ', 'ROUTE', 'RSRC', 'RESP'):
        events.update(af.nodes_labelled(lab))
    body = f.node.body
    first = None
    for i, s in enumerate(body):
        if nodes_within(cfg, [s]) & events:
            first = i
            break
    if first is None:
        raise AnchorError('%s: request-processing region not found' % qual)
    pre = [s for s in body[:first] if not (isinstance(s, ast.Expr) and isinstance(s.value, ast.Constant))]
    req_cls = _default_type(p, app, '_request_type')
    resp_cls = _default_type(p, app, '_response_type')
    ctors = []
    for cls, attr in ((req_cls, '_request_type'), (resp_cls, '_response_type')):
        made = [c for s in pre for c in walk_self(s) if isinstance(c, ast.Call) and is_self_attr(c.func, attr)]
        if not made:
            raise AnchorError('%s: self.%s(...) is not called before the first protected region' % (qual, attr))
        ctor = p.constructor(cls)
        if ctor is None:
            raise AnchorError('%s has no constructor' % cls.qual)
        ctors.append((cls, ctor))
    site_exempt = {}
    for cls, ctor in ctors:
        site_exempt.update(_path_info_exemptions(p, ctor))
    E = _GuardedSiteEscape(p, key_exempt=KEY_EXEMPT, site_exempt=site_exempt)
    # only what runs for an HTTP request before the first protected region (not the websocket / lifespan dispatch)
    onpath = flow.reachable(cfg, [cfg.entry], avoid_nodes=nodes_within(cfg, [body[first]]), edge_filter=pruned(cfg, _http_scope_atom(f)))
    E.restrict(f, lambda s: bool(nodes_within(cfg, [s]) & onpath))
    pre = [s for s in pre if nodes_within(cfg, [s]) & onpath]
    reported = set()

    def report(owner: Func, summ, n_units_ok_what, units):
        """one violation per (first-hop construct in `owner`, exception class)"""
        bad_lines = set()
        for key, chain in sorted(summ.items()):
            cls, origin = split_key(key)
            where0, text0 = chain[0]
            owhere = chain[-1][0]
            ofn = _func_at(p, owhere.rsplit(':', 1)[0], int(owhere.rsplit(':', 1)[1]))
            ex = RAISE_EXEMPT.get((ofn.qual if ofn else '?', cls))
            if ex is not None and chain[-1][1].startswith('raise '):
                # checked exemption: the rejected values come from the server-chosen part of the scope
                calls = [c for s in pre for c in walk_self(s) if isinstance(c, ast.Call) and p.callee(f, c) is ofn]
                if owner is f and calls and all(_validation_args_server_chosen(p, f, c) for c in calls):
                    run.extra.setdefault('c04_r6_exemptions_used', {})['%s raises %s' % (ofn.qual, cls)] = ex
                    continue
            bad_lines.add(int(where0.rsplit(':', 1)[1]))
            construct = '%s raises %s' % (_site_text(text0), cls)
            k = (owner.qual, construct)
            if k in reported:
                continue
            reported.add(k)
            run.fail('%s: nothing a client can trigger raises before the first try of __call__ (it would bypass every error handler)' % tag,
                     owner, construct, where=where0, witness=['%s %s' % w for w in chain],
                     runtime_witness='a request whose %s makes this construct raise: the exception propagates out of the app callable' % (
                         'query string / headers',))
        for s in units:
            lo, hi = s.lineno, (s.end_lineno or s.lineno)
            if not any(lo <= ln <= hi for ln in bad_lines):
                run.ok(n_units_ok_what, owner.loc(s), short(s, 80))

    summ = E.block_summary(pre, f, appcls)
    report(f, summ, '%s: statement before the first try of __call__ has an empty client-triggerable escape set' % tag, pre)
    for cls, ctor in ctors:
        run.use(ctor)
        summ = E.summary(ctor, cls)
        units = [s for s in ctor.node.body if not (isinstance(s, ast.Expr) and isinstance(s.value, ast.Constant))]
        report(ctor, summ, '%s: constructor statement of %s (run before the first try) has an empty client-triggerable escape set' % (
            tag, cls.qual), units)
    run.extra.setdefault('c04_r6_exemptions_used', {}).update(E.exempt_used)


def r6_pre_try(run):
    _anchors(run.project)
    for app, qual, tag in APPS:
        _pre_try(run, app, qual, tag)


# ---------------------------------------------------------------------------
# R8 what the serializer negotiates with: req.accept never answers '' / None
# ---------------------------------------------------------------------------

class _AcceptGetterEval(_c9._GetterEval):
    """c09_helpers' accessor interpreter, which additionally reads

    * `<bytes constant>.decode(<codec>)` (the default of a `.get(b'accept', b'*/*')` lookup decoded together with the value);
    * a call of a plain synchronous same-class method with constant arguments - `self.get_header('Accept', default='*/*')` -
      by interpreting the CALLEE on the same header input (one level): its parameters are bound to the constant arguments /
      constant defaults, the header name is mangled concretely (`name.lower().encode('latin1')`, `'HTTP_' + name.upper()...`),
      an empty-dict memo parameter misses (the hit path returns what the miss path stored: C19's memo purity), and statements
      that neither return/raise, nor bind a local, nor mention a request-header table cannot change the answer and are skipped.

    Nothing is assumed about what the callee does with a blank value: that is read from its body."""

    TEXT_METHODS = ('lower', 'upper', 'casefold', 'title', 'encode', 'decode', 'replace', 'strip')
    EMPTY_MEMO = ('empty-memo',)
    POISON = ('unread',)

    def __init__(self, getter, env, inp, p=None, cq=None, depth=0):
        super().__init__(getter, env, inp)
        self.p, self.cq, self.depth = p, cq, depth
        self.keys: Set[object] = set()

    # -- keys: constants, factory names, and (in a callee) the concretely mangled header name
    def key(self, e, loc):
        if isinstance(e, ast.Constant) and isinstance(e.value, (str, bytes)):
            self.keys.add(e.value)
            return
        if isinstance(e, ast.Name) and e.id not in loc and self.env.get(e.id) is _c9._DERIVED:
            return
        v = self.ev(e, loc)
        if v[0] == 'const' and isinstance(v[1], (str, bytes)):
            self.keys.add(v[1])
            return
        self.bad('table key', e)

    def _const(self, v, types):
        return isinstance(v, tuple) and len(v) == 2 and v[0] == 'const' and isinstance(v[1], types)

    def _callee(self, call):
        if self.p is None or self.cq is None or self.depth >= 1:
            return None
        fn = call.func
        if not (isinstance(fn, ast.Attribute) and is_name(fn.value, 'self')):
            return None
        m = _c9.effective_members(self.p, self.cq).get(fn.attr)
        if m is None or m.kind != 'method' or m.func is None or m.func.is_async or m.func.decorators:
            return None
        return m.func

    def _call_through(self, call, callee: Func, loc):
        a = callee.node.args
        if a.vararg is not None or a.kwarg is not None or any(isinstance(x, ast.Starred) for x in call.args) \
                or any(k.arg is None for k in call.keywords):
            self.bad('star arguments', call)
        pos = [x.arg for x in list(a.posonlyargs) + list(a.args)][1:]      # without self
        names = set(pos) | {x.arg for x in a.kwonlyargs}
        if len(call.args) > len(pos):
            self.bad('too many positional arguments', call)
        env: Dict[str, tuple] = {}
        for nm, x in zip(pos, call.args):
            env[nm] = self.ev(x, loc)
        for k in call.keywords:
            if k.arg not in names or k.arg in env:
                self.bad('keyword %s' % k.arg, call)
            env[k.arg] = self.ev(k.value, loc)
        sub = _AcceptGetterEval(callee, env, self.inp, self.p, self.cq, self.depth + 1)
        defaults = list(zip(pos[len(pos) - len(a.defaults):], a.defaults)) + [(x.arg, d) for x, d in zip(a.kwonlyargs, a.kw_defaults) if d is not None]
        for nm, d in defaults:
            if nm in env:
                continue
            if isinstance(d, ast.Dict) and not d.keys:
                env[nm] = self.EMPTY_MEMO
            else:
                v = self.p.fold(callee.module, d)
                if v is UNKNOWN or not (v is None or isinstance(v, (str, bytes, bool, int))):
                    self.bad('default of parameter %s of %s is not a constant' % (nm, callee.qual), d)
                env[nm] = _c9.K_NONE if v is None else ('const', v)
        for nm in names:
            if nm not in env:
                self.bad('parameter %s of %s is not bound' % (nm, callee.qual), call)
            if not (env[nm] in (_c9.K_NONE, self.EMPTY_MEMO) or self._const(env[nm], (str, bytes, bool, int))):
                self.bad('argument %s of %s is not a constant' % (nm, callee.qual), call)
        for n in walk_no_nested(callee.node):
            if isinstance(n, ast.Name) and isinstance(n.ctx, (ast.Store, ast.Del)) and n.id in env:
                self.bad('%s rebinds its parameter %s' % (callee.qual, n.id))
        try:
            r = sub.run(callee.node.body, {})
        finally:
            self.tables |= sub.tables
            self.keys |= sub.keys
        return r[1] if r is not None else _c9.K_NONE

    def ev(self, e, loc):
        if isinstance(e, ast.Name) and e.id in loc and loc[e.id] is self.POISON:
            self.bad('local bound by a statement that was not read', e)
        if isinstance(e, (ast.Name, ast.Attribute)) and self.p is not None and not (isinstance(e, ast.Name) and (e.id in loc or self.env.get(e.id) is not None)):
            # a module-level / class-level constant is its value (`_ANY = '*/*'`)
            cv = self.p.fold(self.f.module, e, self.f.cls, self.f)
            if isinstance(cv, (str, bytes)):
                return ('const', cv)
        if isinstance(e, ast.Call) and isinstance(e.func, ast.Attribute) and e.func.attr in self.TEXT_METHODS and not e.keywords \
                and not self.is_table(e.func.value):
            try:
                v = self.ev(e.func.value, loc)
            except _c9.Unreadable:
                v = None
            if v == _c9.K_VALUE and e.func.attr == 'decode' and all(isinstance(x, ast.Constant) for x in e.args):
                return v                 # b''.decode(..) == '': blank stays blank
            if v is not None and self._const(v, (str, bytes)):
                args = [self.ev(x, loc) for x in e.args]
                if all(self._const(x, (str, bytes)) for x in args):
                    try:
                        return ('const', getattr(v[1], e.func.attr)(*[x[1] for x in args]))
                    except Exception:  # noqa: BLE001
                        self.bad('%s of a constant' % e.func.attr, e)
            self.bad('call', e)
        if isinstance(e, ast.Call):
            callee = self._callee(e)
            if callee is not None:
                return self._call_through(e, callee, loc)
        if isinstance(e, ast.BinOp) and isinstance(e.op, ast.Add):
            l, r = self.ev(e.left, loc), self.ev(e.right, loc)
            if self._const(l, str) and self._const(r, str) or self._const(l, bytes) and self._const(r, bytes):
                return ('const', l[1] + r[1])
            self.bad('expression', e)
        if isinstance(e, ast.Subscript) and isinstance(e.ctx, ast.Load) and isinstance(e.value, ast.Name) \
                and e.value.id not in loc and self.env.get(e.value.id) is self.EMPTY_MEMO:
            self.ev(e.slice, loc)
            raise _c9._HeaderMissing()    # a KeyError: the memo has no entry yet
        if isinstance(e, ast.Compare) and len(e.ops) == 1 and isinstance(e.ops[0], (ast.In, ast.NotIn)) \
                and self.p is not None and not self.is_table(e.comparators[0]):
            l = self.ev(e.left, loc)
            box = self.p.fold(self.f.module, e.comparators[0], None, self.f)
            if self._const(l, (str, bytes)) and isinstance(box, (tuple, list, frozenset, set, dict)):
                res = l[1] in box
                return ('const', res if isinstance(e.ops[0], ast.In) else not res)
            self.bad('expression', e)
        return super().ev(e, loc)

    # -- statements
    def _inert(self, s) -> bool:
        """The statement cannot change what the accessor answers: no return/raise, no local binding, no mention of a
        request-header table."""
        if isinstance(s, (ast.Return, ast.Raise, ast.Assign, ast.AnnAssign, ast.Try, ast.Pass)) \
                or (isinstance(s, ast.Expr) and isinstance(s.value, ast.Constant)):
            if not (isinstance(s, ast.Assign) and not any(isinstance(x, ast.Name) and isinstance(x.ctx, ast.Store) for t in s.targets
                                                           for x in ast.walk(t))):
                return False
        for n in ast.walk(s):
            if isinstance(n, (ast.Return, ast.Raise, ast.Yield, ast.YieldFrom, ast.Await, ast.FunctionDef, ast.AsyncFunctionDef, ast.Lambda,
                              ast.Global, ast.Nonlocal, ast.NamedExpr, ast.Delete, ast.Break, ast.Continue)):
                return False
            if isinstance(n, ast.Name) and isinstance(n.ctx, (ast.Store, ast.Del)):
                return False
            if isinstance(n, (ast.Attribute, ast.Name)) and _c9.table_of(self.f, n) is not None:
                return False
        return True

    def run(self, stmts, loc):
        for s in stmts:
            if self.depth and self._inert(s):
                continue
            r = super().run([s], loc)
            if r is not None:
                return r
        return None


def _accept_kinds(p, getter: Func, env, cq=None) -> Tuple[Dict[str, tuple], Set[Optional[str]]]:
    """-> (input class -> result kind, canonical names of the headers consulted through a looked-through callee)."""
    try:
        return _c9.header_getter_kinds(p, getter, env), set()
    except _c9.Unreadable:
        pass
    if getter.is_async or len(getter.params()) != 1:
        raise _c9.Unreadable('%s: not a one-argument synchronous getter' % getter.qual)
    out: Dict[str, tuple] = {}
    tables: Set[str] = set()
    keys: Set[object] = set()
    for inp in _c9.HEADER_INPUTS:
        ge = _AcceptGetterEval(getter, env or {}, inp, p, cq)
        try:
            r = ge.run(getter.node.body, {})
            v = r[1] if r is not None else _c9.K_NONE
        except _c9._HeaderMissing:
            v = ('raises', 'KeyError')
        if v == _c9.K_VALUE and inp == 'blank':
            v = ('const', '')
        out[inp] = v
        tables |= ge.tables
        keys |= ge.keys
    if len(tables) != 1:
        raise _c9.Unreadable('%s: reads %d request-header tables' % (getter.qual, len(tables)))
    kind = next(iter(tables))
    return out, {_c9.norm_header_key(kind, k) for k in keys}


def _header_names_read(p, getter: Func, env) -> Set[Optional[str]]:
    """Canonical names of the headers whose table entry the getter consults (None: not a header key / not constant)."""
    out: Set[Optional[str]] = set()

    def key_of(kind, k):
        if isinstance(k, ast.Constant):
            return _c9.norm_header_key(kind, k.value)
        if isinstance(k, ast.Name) and env.get(k.id) is not None:
            v = env[k.id]
            if v[0] == 'const':
                return _c9.norm_header_key(kind, v[1])
            if v[0] == 'derived':
                # a factory local computed from the header name: the name itself is a constant argument of the factory
                names = {x[1].lower() for x in env.values() if x[0] == 'const' and isinstance(x[1], str)}
                return names.pop() if len(names) == 1 else None
        return None

    for n in walk_no_nested(getter.node):
        tbl = key = None
        if isinstance(n, ast.Subscript) and isinstance(n.ctx, ast.Load):
            tbl, key = _c9.table_of(getter, n.value), n.slice
        elif isinstance(n, ast.Compare) and len(n.ops) == 1 and isinstance(n.ops[0], (ast.In, ast.NotIn)):
            tbl, key = _c9.table_of(getter, n.comparators[0]), n.left
        elif isinstance(n, ast.Call) and isinstance(n.func, ast.Attribute) and n.func.attr == 'get' and n.args:
            tbl, key = _c9.table_of(getter, n.func.value), n.args[0]
        if tbl is not None and tbl[0] in ('environ', 'asgi-headers'):
            out.add(key_of(tbl[0], key))
    return out


def r8_accept_default(run):
    """`default_serialize_error` negotiates on `req.accept` (through client_prefers and directly).  An accessor that answers
    '' or None for a request that states no preference makes every default error response body-less."""
    p = run.project
    expected = {'missing': ('const', CATCH_ALL_RANGE), 'blank': ('const', CATCH_ALL_RANGE), 'non-blank': _c9.K_VALUE}
    words = {'missing': 'missing', 'blank': 'present but blank', 'non-blank': 'present and non-blank'}
    for cq, tag in ((_c9.WSGI_REQ, 'WSGI'), (_c9.ASGI_REQ, 'ASGI')):
        p.cls(cq)
        mem = _c9.effective_members(p, cq)
        # the negotiation the serializer calls reads this very accessor
        cp = mem.get('client_prefers')
        if cp is None or cp.func is None:
            raise AnchorError('%s.client_prefers not found' % cq)
        if not any(is_self_attr(x, 'accept') for x in walk_self(cp.func.node)):
            raise AnchorError('%s does not negotiate on self.accept' % cp.func.qual)
        m = mem.get('accept')
        if m is None:
            raise AnchorError('%s.accept not found' % cq)
        if m.kind == 'factory':
            _fac, getter, env = _c9.factory_bindings(p, p.cls(m.owner), getattr(m.node, 'value', None))
            site, where = '%s.%s' % (m.owner, m.name), p.cls(m.owner).loc(m.node)
        elif m.func is not None and m.func.is_property():
            getter, env = m.func, {}
            site, where = getter, getter.loc()
        else:
            raise UnknownIdiom('%s.accept is neither a property nor a factory-built header property (%s)' % (cq, m.kind))
        run.use(getter)
        kinds, through = _accept_kinds(p, getter, env, cq)
        names = _header_names_read(p, getter, env) | through
        if None in names or not names:
            raise UnknownIdiom('%s: header consulted by the accept accessor is not a constant header key' % getter.qual)
        run.check(names == {'accept'}, '%s: req.accept reads the Accept header' % tag, site, 'accept reads %s' % ', '.join(sorted(names)),
                  where=where)
        wit = ['Accept header %s -> %s' % (words[c], _c9.kind_text(kinds[c])) for c in _c9.HEADER_INPUTS]
        for c in _c9.HEADER_INPUTS:
            ok = kinds[c] == expected[c]
            run.check(ok, '%s: req.accept, which the default error serializer negotiates with, is %s when the Accept header is %s'
                      % (tag, _c9.kind_text(expected[c]), words[c]), site,
                      'accept(%s header)' % c if ok else 'accept(%s header) -> %s' % (c, _c9.kind_text(kinds[c])), where=where, witness=wit,
                      runtime_witness='a request whose Accept header is %s gets req.accept = %s: nothing on offer matches it and every '
                                      'default error response (HTTPError, 404, 500) is sent without a body' % (words[c], _c9.kind_text(kinds[c])))


def check(run):
    run.assume('request_type / response_type are the framework defaults (custom subclasses are outside the model)')
    run.assume('for HTTP requests the resp argument of the error machinery is a Response object (truthy); the ws-only paths are pruned')
    run.assume('E5: str/bytes/re/dict.get methods and in-range subscripts are total; unresolved external callees do not raise')
    run.assume('the WSGI/ASGI server honours the keys its specification makes mandatory (table KEY_EXEMPT in sa/rules/c04.py)')
    # floors: counted by hand on the reference tree (R1 44 = 2 apps x (6 user-code events + render statements (1 / 5) + 4 arms x 3
    # + 1 render-window result); R2 16; R3 25 = 2 x 12 + 1; R4 102 = 7 composer + 1 Vary + 8 fields + 78 status table + 8 wiring;
    # (+5 negotiation: offer order, JSON first, negotiated on every path, 2 fallback assignments guarded by `preferred is None`);
    # (+1 Vary: Accept through Response.append_header, evaluated on VARY_BEFORE);
    # R5 4 (6 today: 2 apps x (composes 500, own escape set empty - str.format/% total only for constant templates -, no text
    # conversion of the exception object); the escape half alone is registered by C03 as R10);
    # R6 89 = pre-try statements + constructor statements; R8 8 = 2 stacks x (header name + 3 input classes); R9 = C11 R11).  Kept a little below today's count so that harmless
    # restructurings of the render region / fewer error classes do not make the check exit 2.
    run.rule('R1', r1_windows, 'user code and rendering run inside try/except Exception -> _handle_exception', floor=38)
    run.rule('R2', r2_selection, 'most specific registered class wins; latest registration wins; defaults installed', floor=16)
    run.rule('R3', r3_handle, '_handle_exception: reset, call, HTTPStatus/HTTPError arms, result', floor=25)
    run.rule('R4', r4_rendering, 'composers, Vary: Accept, to_dict/_to_xml field sets, status tables', floor=90)
    run.rule('R5', r5_never_escapes, 'the default Exception handler always composes a 500 and raises nothing itself', floor=4)
    run.rule('R6', r6_pre_try, 'nothing client-triggerable raises before the first try of __call__', floor=60)
    # the serialisation of an error is negotiated against Accept: a refused (q=0) range must stay in the contest so
    # that it can veto a type (shared with C11 R8)
    from . import c11 as _c11

    run.rule('R8', r8_accept_default, "req.accept (what the error serializer negotiates with) is '*/*' for a missing and for a blank "
             'Accept header on both stacks', floor=8)
    run.rule('R7', _c11._safe(_c11.r8_q_never_decides_match), 'error-serializer negotiation: q never decides whether a media range matches (shared with C11 R8)', floor=5)
    run.rule('R9', _c11._safe(_c11.r11_quality_stored_as_parsed), 'error-serializer negotiation: the weight of a range is the float parsed from '
             'its q text, never rounded / truncated (a non-zero weight must not become q=0 "not acceptable" -> empty error body; shared with C11 R11)', floor=4)
