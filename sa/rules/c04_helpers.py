"""Helpers shared by the C04 and C05 rule modules.

Nothing here is specific to one rule: reaching definitions over the CFG of
sa.cfg, branch facts (dominating test edges + short-circuit prefixes),
three-valued evaluation of a test under assumed atoms, edge pruning, a
per-site variant of the E5 escape analysis, and small matchers.
"""

from __future__ import annotations

import ast
from typing import Callable, Dict, FrozenSet, Iterable, List, Optional, Sequence, Set, Tuple

from .. import flow
from ..cfg import CFG, Node, cfg_of
from ..escape import Escape
from ..model import AnchorError, Class, Func, Project, UnknownIdiom, dotted, short, walk_no_nested
from .common import implied, strip_await, walk_self


# ---------------------------------------------------------------------------
# node index
# ---------------------------------------------------------------------------

class Index:
    """id(sub-expression) -> CFG node ids evaluating it (finally copies give
    several)."""

    def __init__(self, cfg: CFG):
        self.cfg = cfg
        self.by_expr: Dict[int, List[int]] = {}
        for n in cfg.live_nodes():
            if n.kind in ('entry', 'exit', 'xexit', 'join'):
                continue
            for x in n.walk():
                self.by_expr.setdefault(id(x), []).append(n.id)
        self._no_edge: Dict[Tuple[int, int, str], Set[int]] = {}
        self._rd = None

    def nodes_of(self, expr) -> List[int]:
        return list(self.by_expr.get(id(expr), []))

    def node_of(self, expr, what='expression') -> int:
        ns = self.nodes_of(expr)
        if not ns:
            raise AnchorError('%s: %s is not evaluated by any live CFG node' % (self.cfg.func.qual, what))
        return ns[0]

    # ------------------------------------------------------------ dominance
    def reach_without(self, edge) -> Set[int]:
        r = self._no_edge.get(edge)
        if r is None:
            r = flow.reachable(self.cfg, [self.cfg.entry], avoid_edges=[edge])
            self._no_edge[edge] = r
        return r

    def dominated_by_edge(self, nid: int, edge) -> bool:
        return nid not in self.reach_without(edge)

    def facts(self, nid: int, inner=None) -> List[Tuple[ast.AST, bool]]:
        """(test expression, truth) pairs known to hold whenever node `nid`
        (and, inside it, the sub-expression `inner`) is evaluated: every
        dominating branch edge plus the short-circuit prefix inside the node's
        own expression."""
        return [(t, tr) for (t, tr, _n) in self.facts3(nid, inner)]

    def facts3(self, nid: int, inner=None) -> List[Tuple[ast.AST, bool, int]]:
        """facts() with the id of the node that evaluated each test."""
        cfg = self.cfg
        out: List[Tuple[ast.AST, bool, int]] = []
        for t in cfg.live_nodes():
            if t.kind != 'test' or t.id == nid:
                continue
            for (y, l) in cfg.succ[t.id]:
                if l in ('T', 'F') and self.dominated_by_edge(nid, (t.id, y, l)):
                    out.append((t.ast, l == 'T', t.id))
        if inner is not None:
            n = cfg.node(nid)
            for root in n.own():
                out.extend((e, tr, nid) for (e, tr) in _short_circuit_prefix(root, inner))
        return out

    # ------------------------------------------------- reaching definitions
    def reaching(self) -> Dict[int, FrozenSet[Tuple[str, int]]]:
        """(name, defining node id) pairs reaching the *entry* of each node;
        parameters are defined by the entry node."""
        if self._rd is None:
            cfg = self.cfg
            defs: Dict[int, Set[str]] = {}
            for n in cfg.live_nodes():
                names = set(defined_names(n))
                if names:
                    defs[n.id] = names
            params = frozenset((p, cfg.entry) for p in cfg.func.params())

            def transfer(node: Node, facts, label):
                if node.id == cfg.entry:
                    return params
                if label == 'exc' and node.kind != 'handler':
                    # the assignment did not complete
                    return facts
                ds = defs.get(node.id)
                if not ds:
                    return facts
                if node.kind == 'iter' and label == 'done':
                    return facts
                kept = frozenset(f for f in facts if f[0] not in ds)
                return kept | frozenset((d, node.id) for d in ds)

            self._rd = flow.forward(cfg, transfer, init=frozenset(), must=False)
        return self._rd

    def defs_reaching(self, nid: int, name: str) -> List[int]:
        return sorted(d for (v, d) in self.reaching()[nid] if v == name)


def _short_circuit_prefix(root, inner) -> List[Tuple[ast.AST, bool]]:
    """Facts implied by `inner` being evaluated at all inside `root`."""
    path = _path_to(root, inner)
    if path is None:
        return []
    out = []
    for parent, child in zip(path, path[1:]):
        if isinstance(parent, ast.BoolOp):
            idx = [i for i, v in enumerate(parent.values) if v is child]
            if idx:
                truth = isinstance(parent.op, ast.And)
                for prev in parent.values[: idx[0]]:
                    out.append((prev, truth))
        elif isinstance(parent, ast.IfExp):
            if child is parent.body:
                out.append((parent.test, True))
            elif child is parent.orelse:
                out.append((parent.test, False))
    return out


def _path_to(root, target) -> Optional[List[ast.AST]]:
    if root is target:
        return [root]
    if isinstance(root, (ast.FunctionDef, ast.AsyncFunctionDef, ast.Lambda, ast.ClassDef)):
        return None
    for c in ast.iter_child_nodes(root):
        p = _path_to(c, target)
        if p is not None:
            return [root] + p
    return None


def defined_names(n: Node) -> List[str]:
    out: List[str] = []

    def targets(t):
        if isinstance(t, ast.Name):
            out.append(t.id)
        elif isinstance(t, (ast.Tuple, ast.List)):
            for e in t.elts:
                targets(e)
        elif isinstance(t, ast.Starred):
            targets(t.value)

    if n.kind == 'stmt':
        a = n.ast
        if isinstance(a, ast.Assign):
            for t in a.targets:
                targets(t)
        elif isinstance(a, ast.AnnAssign):
            if a.value is not None:
                targets(a.target)
        elif isinstance(a, ast.AugAssign):
            targets(a.target)
        elif isinstance(a, (ast.FunctionDef, ast.AsyncFunctionDef, ast.ClassDef)):
            out.append(a.name)
        elif isinstance(a, (ast.Import, ast.ImportFrom)):
            for al in a.names:
                out.append((al.asname or al.name).split('.')[0])
        for x in n.walk():
            if isinstance(x, ast.NamedExpr):
                targets(x.target)
    elif n.kind == 'iter':
        targets(n.stmt.target)
    elif n.kind == 'with':
        for it in n.stmt.items:
            if it.optional_vars is not None:
                targets(it.optional_vars)
    elif n.kind == 'handler':
        if n.ast.name:
            out.append(n.ast.name)
    elif n.kind == 'test':
        for x in n.walk():
            if isinstance(x, ast.NamedExpr):
                targets(x.target)
    return out


def def_value(cfg: CFG, def_id: int, name: str):
    """What `name` is bound to by the defining node:
    ('param',) | ('expr', e) | ('unpack', e, index) | ('aug', op, e) |
    ('iter', e) | ('other',)."""
    if def_id == cfg.entry:
        return ('param',)
    n = cfg.node(def_id)
    if n.kind == 'stmt':
        a = n.ast
        if isinstance(a, ast.AnnAssign) and isinstance(a.target, ast.Name) and a.target.id == name:
            return ('expr', a.value)
        if isinstance(a, ast.AugAssign) and isinstance(a.target, ast.Name) and a.target.id == name:
            return ('aug', a.op, a.value)
        if isinstance(a, ast.Assign):
            for t in a.targets:
                if isinstance(t, ast.Name) and t.id == name:
                    return ('expr', a.value)
                if isinstance(t, (ast.Tuple, ast.List)):
                    for i, e in enumerate(t.elts):
                        if isinstance(e, ast.Name) and e.id == name:
                            v = a.value
                            if isinstance(v, (ast.Tuple, ast.List)) and len(v.elts) == len(t.elts):
                                return ('expr', v.elts[i])
                            return ('unpack', v, i)
    if n.kind == 'iter':
        return ('iter', n.stmt.iter)
    return ('other',)


# ---------------------------------------------------------------------------
# three-valued evaluation and pruning
# ---------------------------------------------------------------------------

Atom = Callable[[ast.AST], Optional[bool]]


def eval3(expr, atom: Atom) -> Optional[bool]:
    """Truth of `expr` given the truth `atom` assigns to some of its
    sub-expressions (None = unknown)."""
    expr = strip_await(expr)
    v = atom(expr)
    if v is not None:
        return v
    if isinstance(expr, ast.Constant):
        return bool(expr.value)
    if isinstance(expr, ast.UnaryOp) and isinstance(expr.op, ast.Not):
        r = eval3(expr.operand, atom)
        return None if r is None else (not r)
    if isinstance(expr, ast.BoolOp):
        vals = [eval3(v, atom) for v in expr.values]
        if isinstance(expr.op, ast.And):
            if any(v is False for v in vals):
                return False
            if all(v is True for v in vals):
                return True
            return None
        if any(v is True for v in vals):
            return True
        if all(v is False for v in vals):
            return False
        return None
    return None


def pruned(cfg: CFG, atom: Atom, base=None):
    """Edge filter: drops the branch edges that contradict the assumptions
    encoded by `atom` (and, optionally, what `base` drops)."""

    cache: Dict[int, Optional[bool]] = {}

    def filt(x, y, l):
        if base is not None and not base(x, y, l):
            return False
        if l in ('T', 'F'):
            n = cfg.node(x)
            if n.kind == 'test':
                if x not in cache:
                    cache[x] = eval3(n.ast, atom)
                v = cache[x]
                if v is not None and v != (l == 'T'):
                    return False
        return True

    return filt


def none_test(expr, is_subject: Callable[[ast.AST], bool]) -> Optional[bool]:
    """For `S is None` -> True-means-None; returns the polarity: True if expr
    is `S is None`, False if `S is not None`, None otherwise."""
    if isinstance(expr, ast.Compare) and len(expr.ops) == 1 and is_subject(expr.left):
        c = expr.comparators[0]
        if isinstance(c, ast.Constant) and c.value is None:
            if isinstance(expr.ops[0], (ast.Is, ast.Eq)):
                return True
            if isinstance(expr.ops[0], (ast.IsNot, ast.NotEq)):
                return False
    return None


def assume_none(is_subject, is_none: bool, truthy_means_not_none=True) -> Atom:
    """Atom valuation assuming the subject is (not) None.  A bare truthiness
    test of the subject is decided only in the `is None` case (None is
    falsy); a non-None value may still be falsy."""

    def atom(e):
        pol = none_test(e, is_subject)
        if pol is not None:
            return pol == is_none
        if is_subject(e) and is_none:
            return False
        return None

    return atom


def combine(*atoms: Atom) -> Atom:
    def atom(e):
        for a in atoms:
            v = a(e)
            if v is not None:
                return v
        return None

    return atom


def refuted(facts, atom: Atom) -> bool:
    """Some fact (test, truth) cannot hold under the assumption encoded by
    `atom` (the test evaluates, under that assumption, to the opposite
    truth).  So the facts establish the negation of the assumption."""
    for (test, truth) in facts:
        r = eval3(test, atom)
        if r is not None and r != truth:
            return True
    return False


# ---------------------------------------------------------------------------
# small matchers
# ---------------------------------------------------------------------------

def subject_tests(expr, is_subject: Callable[[ast.AST], bool]) -> List[ast.AST]:
    """Atoms of a branch condition that test the subject itself (its
    truthiness or a comparison of it), looking through not/and/or."""
    expr = strip_await(expr)
    if isinstance(expr, ast.UnaryOp) and isinstance(expr.op, ast.Not):
        return subject_tests(expr.operand, is_subject)
    if isinstance(expr, ast.BoolOp):
        out = []
        for v in expr.values:
            out.extend(subject_tests(v, is_subject))
        return out
    if is_subject(expr):
        return [expr]
    if isinstance(expr, ast.Compare) and (is_subject(expr.left) or any(is_subject(c) for c in expr.comparators)):
        return [expr]
    return []


def undecided_subject_test(expr, is_subject) -> Optional[ast.AST]:
    """A test of the subject that is not an `is (not) None` comparison."""
    for a in subject_tests(expr, is_subject):
        if none_test(a, is_subject) is None:
            return a
    return None


def aliases(f: Func, pred) -> Set[str]:
    """Locals all of whose bindings satisfy `pred`."""
    binds: Dict[str, List[bool]] = {}
    for n in walk_self(f.node):
        if isinstance(n, ast.Assign):
            for t in n.targets:
                for xn in ast.walk(t):
                    if isinstance(xn, ast.Name) and isinstance(xn.ctx, ast.Store):
                        binds.setdefault(xn.id, []).append(t is xn and pred(n.value))
        elif isinstance(n, ast.AnnAssign) and isinstance(n.target, ast.Name) and n.value is not None:
            binds.setdefault(n.target.id, []).append(pred(n.value))
        elif isinstance(n, (ast.For, ast.AsyncFor, ast.AugAssign, ast.NamedExpr)):
            tg = n.target
            for xn in ast.walk(tg):
                if isinstance(xn, ast.Name):
                    binds.setdefault(xn.id, []).append(False)
    return {k for k, v in binds.items() if v and all(v) and k not in f.params()}


def is_name(e, name) -> bool:
    return isinstance(e, ast.Name) and e.id == name


def attr_of(e, base: str, attrs: Iterable[str]) -> bool:
    return isinstance(e, ast.Attribute) and e.attr in attrs and is_name(e.value, base)


def param_at(func: Func, pos: int, what: str) -> str:
    ps = [a.arg for a in func.node.args.posonlyargs + func.node.args.args]
    if len(ps) <= pos:
        raise AnchorError('%s: no positional parameter %d (%s)' % (func.qual, pos, what))
    return ps[pos]


def calls_in_func(func: Func) -> List[ast.Call]:
    return [n for n in walk_self(func.node) if isinstance(n, ast.Call)]


def is_stub(func: Func) -> bool:
    """Body consisting only of a docstring / `...` / `pass` (typing stub)."""
    for s in func.node.body:
        if isinstance(s, ast.Pass):
            continue
        if isinstance(s, ast.Expr) and isinstance(s.value, ast.Constant) and (s.value.value is Ellipsis or isinstance(s.value.value, str)):
            continue
        return False
    return True


def effective_method(p: Project, cqual: str, name: str) -> Func:
    """Method found through the MRO, skipping typing-only stubs."""
    for k in p.mro(cqual):
        c = p.classes.get(k)
        if c is not None and name in c.methods:
            f = c.methods[name]
            if is_stub(f):
                continue
            return f
    raise AnchorError('method %s not found on %s' % (name, cqual))


def assigned_none_attrs(n: Node, base: str) -> Set[str]:
    """Attributes of `base` that node n sets to the constant None."""
    out: Set[str] = set()
    if n.kind == 'stmt' and isinstance(n.ast, ast.Assign):
        v = n.ast.value
        if isinstance(v, ast.Constant) and v.value is None:
            for t in n.ast.targets:
                if isinstance(t, ast.Attribute) and is_name(t.value, base):
                    out.add(t.attr)
    if n.kind == 'stmt' and isinstance(n.ast, ast.AnnAssign):
        v = n.ast.value
        t = n.ast.target
        if isinstance(v, ast.Constant) and v.value is None and isinstance(t, ast.Attribute) and is_name(t.value, base):
            out.add(t.attr)
    return out


def handler_class_quals(p: Project, func: Func, h: ast.ExceptHandler) -> Optional[List[str]]:
    if h.type is None:
        return None
    types = h.type.elts if isinstance(h.type, ast.Tuple) else [h.type]
    return [p.resolve_expr(func.module, t, func) or ('?' + short(t)) for t in types]


def catches_exception(p: Project, func: Func, h: ast.ExceptHandler) -> bool:
    """Arm that catches every Exception-derived error."""
    q = handler_class_quals(p, func, h)
    if q is None:
        return True
    return any(c in ('builtins.Exception', 'builtins.BaseException') for c in q)


def in_cycle(cfg: CFG, nid: int) -> bool:
    succ = [y for (y, _l) in cfg.succ[nid]]
    return nid in flow.reachable(cfg, succ)


# ---------------------------------------------------------------------------
# event projection with edge removal
# ---------------------------------------------------------------------------

DROP = '!drop'


def project_pruned(cfg: CFG, labeler, edge_labeler, accept_xexit: Optional[str] = None) -> flow.NFA:
    """flow.project, except that `edge_labeler` may return DROP to leave a CFG
    edge out of the automaton (flow.project can only relabel edges)."""
    nfa = flow.NFA()
    ins: Dict[int, int] = {}
    mids: Dict[int, int] = {}
    outs: Dict[int, int] = {}
    for n in cfg.live_nodes():
        i = nfa.new()
        ins[n.id] = i
        labels = list(labeler(n)) if n.kind not in ('entry', 'exit', 'xexit') else []
        cur = i
        for lab in [l for l in labels if l.startswith('^')]:
            nxt = nfa.new()
            nfa.add(cur, lab[1:], nxt, n.id)
            cur = nxt
        mids[n.id] = cur
        for lab in [l for l in labels if not l.startswith('^')]:
            nxt = nfa.new()
            nfa.add(cur, lab, nxt, n.id)
            cur = nxt
        outs[n.id] = cur
    for n in cfg.live_nodes():
        for (y, l) in cfg.succ[n.id]:
            lab = edge_labeler(n.id, y, l)
            if lab == DROP:
                continue
            nfa.add(mids[n.id] if l == 'exc' else outs[n.id], lab, ins[y], n.id)
    nfa.start = ins[cfg.entry]
    nfa.accept.add(outs[cfg.exit])
    if accept_xexit is not None:
        fin = nfa.new()
        nfa.add(outs[cfg.xexit], accept_xexit, fin, cfg.xexit)
        nfa.accept.add(fin)
    return nfa


# ---------------------------------------------------------------------------
# per-site escape analysis
# ---------------------------------------------------------------------------

SEP = ' @@ '


class SiteEscape(Escape):
    """E5 with one summary entry per (exception class, origin site) instead
    of one per class, so that every escaping construct is reported by itself.
    Keys of the summaries are '<class> @@ <file:line> <text>'."""

    # optional restriction of the analysed statements of one function
    root_func: Optional[Func] = None
    stmt_filter: Optional[Callable[[ast.AST], bool]] = None

    def _stmt(self, s, func, selfcls, handlers, out, caught_ctx):
        if self.stmt_filter is not None and func is self.root_func and not self.stmt_filter(s):
            return
        super()._stmt(s, func, selfcls, handlers, out, caught_ctx)

    def restrict(self, func: Func, keep: Callable[[ast.AST], bool]):
        """Analyse only the statements of `func` accepted by `keep`."""
        self.root_func = func
        self.stmt_filter = keep

    def _filter(self, exc, handlers):
        return super()._filter(exc.split(SEP)[0], handlers)

    def _add(self, out, exc, chain, handlers):
        cls = exc.split(SEP)[0]
        origin = chain[-1]
        key = cls + SEP + '%s %s' % origin
        if self._filter(key, handlers):
            if key not in out or len(chain) < len(out[key]):
                out[key] = chain

    def block_summary(self, stmts, func: Func, selfcls: Optional[Class]):
        """Escape set of a statement list of `func` (fixpoint over callees)."""
        res = {}
        for _ in range(16):
            self.changed = False
            self.in_progress.clear()
            self._round_done = set()
            res = {}
            saved = self._guards
            self._guards = []
            self._block(stmts, func, selfcls, [], res, caught_ctx=None)
            self._guards = saved
            if not self.changed:
                break
        self.stable.update(self._round_done)
        return res


def split_key(key: str) -> Tuple[str, str]:
    cls, _, origin = key.partition(SEP)
    return cls, origin
